// Command verif is the orchestrator of the deterministic simulation checks for
// hedzr/logg (see /verif/DESIGN.md). It links nothing of hedzr/logg.
//
//	verif check <id> <quick|thorough>
//	verif replay <file>
//	verif instrument <repo> <outdir> [fine]
//	verif gen <id> <tier> <episode>         print the scenario of one episode
package main

import (
	"encoding/json"
	"fmt"
	"os"
	"strconv"
	"time"

	"verif/internal/instrument"
	"verif/internal/orch"
	"verif/internal/props"
)

func envOr(k, d string) string {
	if v := os.Getenv(k); v != "" {
		return v
	}
	return d
}

func main() {
	if len(os.Args) < 2 {
		fmt.Fprintln(os.Stderr, "usage: verif check <id> <tier> | replay <file> | instrument <repo> <out> | gen <id> <tier> <i>")
		os.Exit(2)
	}
	seed, _ := strconv.ParseUint(envOr("VERIF_SEED", "1"), 10, 64)
	opt := orch.Options{
		Seed:     seed,
		VerifDir: envOr("VERIF_DIR", "/verif"),
		RepoDir:  envOr("VERIF_REPO", "/repo"),
	}
	if w, err := strconv.Atoi(os.Getenv("VERIF_WORKERS")); err == nil && w > 0 {
		opt.Workers = w
	}
	if n, err := strconv.Atoi(os.Getenv("VERIF_EPISODES")); err == nil && n > 0 {
		opt.Episodes = n
	}
	if d, err := time.ParseDuration(os.Getenv("VERIF_MAXWALL")); err == nil {
		opt.MaxWall = d
	}
	all := props.All()
	switch os.Args[1] {
	case "check":
		if len(os.Args) < 4 {
			os.Exit(2)
		}
		p, ok := all[os.Args[2]]
		if !ok {
			fmt.Printf("unknown or unclaimed property %q\n", os.Args[2])
			os.Exit(2)
		}
		opt.Tier = os.Args[3]
		if t := os.Getenv("VERIF_TIER"); t == "quick" || t == "thorough" {
			opt.Tier = t
		}
		if opt.Tier != "quick" && opt.Tier != "thorough" {
			os.Exit(2)
		}
		os.Exit(orch.RunCheck(p, opt))
	case "warm":
		env, err := orch.BuildWorlds(opt.VerifDir, opt.RepoDir, true, false, nil)
		env.Cleanup()
		if err != nil {
			fmt.Println("warm:", err)
			os.Exit(2)
		}
		fmt.Printf("warm: worlds build in %.1fs\n", env.BuildS)
	case "replay":
		if len(os.Args) < 3 {
			os.Exit(2)
		}
		os.Exit(orch.RunReplay(all, os.Args[2], opt))
	case "gen":
		p, ok := all[os.Args[2]]
		if !ok || len(os.Args) < 5 {
			os.Exit(2)
		}
		i, _ := strconv.Atoi(os.Args[4])
		b, _ := json.Marshal(p.Gen(seed, i, os.Args[3]))
		fmt.Println(string(b))
	case "instrument":
		if len(os.Args) < 4 {
			os.Exit(2)
		}
		rep, err := instrument.Build(instrument.Options{RepoDir: os.Args[2], OutDir: os.Args[3], ModCache: os.Getenv("GOMODCACHE"), FineYields: len(os.Args) > 4})
		if err != nil {
			fmt.Fprintln(os.Stderr, err)
			os.Exit(2)
		}
		b, _ := json.MarshalIndent(rep, "", " ")
		fmt.Println(string(b))
	default:
		os.Exit(2)
	}
}
