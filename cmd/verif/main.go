// Command verif is the orchestrator of the deterministic simulation checks for
// hedzr/logg (see /verif/DESIGN.md). It links nothing of hedzr/logg.
//
//	verif check <id> <quick|thorough>
//	verif replay <file>
//	verif instrument <repo> <outdir> [fine]
//	verif gen <id> <tier> <episode>         print the scenario of one episode
package main

import (
	"encoding/json"
	"fmt"
	"os"
	"strconv"
	"time"

	"verif/internal/instrument"
	"verif/internal/orch"
	"verif/internal/props"
	"verif/internal/scen"
)

func envOr(k, d string) string {
	if v := os.Getenv(k); v != "" {
		return v
	}
	return d
}

func main() {
	if len(os.Args) < 2 {
		fmt.Fprintln(os.Stderr, "usage: verif check <id> <tier> | replay <file> | instrument <repo> <out> | gen <id> <tier> <i>")
		os.Exit(2)
	}
	seed, _ := strconv.ParseUint(envOr("VERIF_SEED", "1"), 10, 64)
	opt := orch.Options{
		Seed:     seed,
		VerifDir: envOr("VERIF_DIR", "/verif"),
		RepoDir:  envOr("VERIF_REPO", "/repo"),
	}
	if w, err := strconv.Atoi(os.Getenv("VERIF_WORKERS")); err == nil && w > 0 {
		opt.Workers = w
	}
	if n, err := strconv.Atoi(os.Getenv("VERIF_EPISODES")); err == nil && n > 0 {
		opt.Episodes = n
	}
	if d, err := time.ParseDuration(os.Getenv("VERIF_MAXWALL")); err == nil {
		opt.MaxWall = d
	}
	all := props.All()
	switch os.Args[1] {
	case "check":
		if len(os.Args) < 4 {
			os.Exit(2)
		}
		p, ok := all[os.Args[2]]
		if !ok {
			fmt.Printf("unknown or unclaimed property %q\n", os.Args[2])
			os.Exit(2)
		}
		opt.Tier = os.Args[3]
		if t := os.Getenv("VERIF_TIER"); t == "quick" || t == "thorough" {
			opt.Tier = t
		}
		if opt.Tier != "quick" && opt.Tier != "thorough" {
			os.Exit(2)
		}
		os.Exit(orch.RunCheck(p, opt))
	case "selftest":
		ids := os.Args[2:]
		if len(ids) == 0 {
			for id := range all {
				ids = append(ids, id)
			}
		}
		n := 32
		if v, err := strconv.Atoi(os.Getenv("VERIF_SELFTEST_N")); err == nil && v > 0 {
			n = v
		}
		os.Exit(orch.SelfTest(all, ids, opt, n))
	case "warm":
		env, err := orch.BuildWorlds(opt.VerifDir, opt.RepoDir, true, true, nil)
		env.Cleanup()
		if err != nil {
			fmt.Println("warm:", err)
			os.Exit(2)
		}
		fmt.Printf("warm: worlds build in %.1fs\n", env.BuildS)
	case "replay":
		if len(os.Args) < 3 {
			os.Exit(2)
		}
		os.Exit(orch.RunReplay(all, os.Args[2], opt))
	case "exec": // debug: run one scenario (or the scenario of a replay file) and print its decoded event log and verdicts
		b, err := os.ReadFile(os.Args[2])
		if err != nil {
			fmt.Println(err)
			os.Exit(2)
		}
		var rp orch.Replay
		_ = json.Unmarshal(b, &rp)
		sc := rp.Scenario
		if sc == nil {
			sc = &scen.Scenario{}
			if err := json.Unmarshal(b, sc); err != nil {
				fmt.Println(err)
				os.Exit(2)
			}
		}
		env, err := orch.BuildWorlds(opt.VerifDir, opt.RepoDir, sc.World.Race, sc.World.Fine, nil)
		defer env.Cleanup()
		if err != nil {
			fmt.Println(err)
			os.Exit(2)
		}
		run := env.Exec1(sc)
		for _, e := range run.Events {
			fmt.Printf("%4d t%d %-8s %s/%d w=%d n=%d a=%d d=%d l=%d f=%q err=%q s=%q v=%s p=%q\n", e.Q, e.T, e.K, e.Ph, e.Op, e.W, e.N, e.A, e.D, e.L, e.F, e.Err, e.S, string(e.V), string(e.P))
		}
		fmt.Printf("exit=%d timeout=%v stdout=%q stderr=%q\n", run.ExitCode, run.TimedOut, string(run.Stdout), string(run.Stderr))
		if run.Result != nil {
			rb, _ := json.Marshal(run.Result)
			fmt.Println("result:", string(rb))
		}
		if p, ok := all[sc.Property]; ok {
			for _, v := range p.Check(sc, run, env) {
				fmt.Printf("VERDICT rule=%s witness=%s: %s\n", v.Rule, v.Witness, v.Detail)
			}
		}
	case "gen":
		p, ok := all[os.Args[2]]
		if !ok || len(os.Args) < 5 {
			os.Exit(2)
		}
		i, _ := strconv.Atoi(os.Args[4])
		b, _ := json.Marshal(p.Gen(seed, i, os.Args[3]))
		fmt.Println(string(b))
	case "instrument":
		if len(os.Args) < 4 {
			os.Exit(2)
		}
		rep, err := instrument.Build(instrument.Options{RepoDir: os.Args[2], OutDir: os.Args[3], ModCache: os.Getenv("GOMODCACHE"), FineYields: len(os.Args) > 4})
		if err != nil {
			fmt.Fprintln(os.Stderr, err)
			os.Exit(2)
		}
		b, _ := json.MarshalIndent(rep, "", " ")
		fmt.Println(string(b))
	default:
		os.Exit(2)
	}
}
