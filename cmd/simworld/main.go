// Command simworld is the world process of the deterministic simulator: it
// links the real hedzr/logg (built from /repo with the seam overlay) and
// interprets scenario documents. See DESIGN.md §2.
package main

import "verif/internal/world"

func main() { world.Main() }
