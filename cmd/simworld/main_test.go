package main

import (
	"os"
	"testing"

	"verif/internal/world"
)

// TestMain makes the test binary of this package (`go test -c`) a world as well: a "testing mode"
// world is then a real go-test binary (argv0 ends in .test, -test.* arguments, testing.Testing()
// is true), not a spoofed argv. Nothing of the testing framework runs.
func TestMain(m *testing.M) {
	world.Main()
	os.Exit(0)
}
