#!/bin/bash
# Runs every claimed property's quick check against a patched scratch worktree of /repo's HEAD.
#   scripts/allchecks.sh <patch.diff> [props...]      (VERIF_EPISODES may cap the episodes)
# One line per property: OK / ALARM (exit 1) / TROUBLE (exit 2).
set -u
PATCH="$(cd "$(dirname "$1")" && pwd)/$(basename "$1")"; shift
PROPS="${*:-C01 C02 C03 C07 C08 C09 C10 C11 C12 C13 C15 C16 C17 C18 C19}"
# work from a frozen copy of /verif: edits made meanwhile cannot break the run, and the evidence
# written by runs against a changed tree does not overwrite /verif/evidence
SNAP=$(mktemp -d /dev/shm/verifsnap-XXXXXX)
# /verif may be in the middle of an edit: take the copy again until it builds
for try in 1 2 3 4 5 6 7 8 9 10 11 12; do
  rsync -a --delete --exclude .git --exclude bin --exclude evidence --exclude replays --exclude seeded "${VERIF_SRC:-/verif}/" "$SNAP/"
  if (cd "$SNAP" && GOFLAGS=-mod=mod GOPROXY=off GOSUMDB=off GOTOOLCHAIN=local GOWORK=off go build ./... >/dev/null 2>&1); then break; fi
  sleep 20
done
cd "$SNAP"
WT=$(mktemp -d /dev/shm/allwt-XXXXXX); rmdir "$WT"
git -C /repo worktree add -q "$WT" HEAD || exit 2
trap 'git -C /repo worktree remove --force "$WT" >/dev/null 2>&1; git -C /repo worktree prune; rm -rf "$SNAP"' EXIT
git -C "$WT" apply "$PATCH" || { echo "allchecks: patch does not apply"; exit 2; }
for P in $PROPS; do
  out=$(VERIF_REPO="$WT" ./check.sh "$P" quick 2>&1); rc=$?
  case $rc in
    0) echo "OK      $P";;
    1) echo "ALARM   $P $(echo "$out" | grep -c '^VIOLATION') $(echo "$out" | grep -m1 '^  rule=' | cut -c1-220)";;
    *) echo "TROUBLE $P rc=$rc $(echo "$out" | grep -m1 -E 'TROUBLE|INCONCL|NOT-REPRO' | cut -c1-200)";;
  esac
done
