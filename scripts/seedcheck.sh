#!/bin/bash
# Applies a seeded change to a scratch worktree of /repo's HEAD, runs the quick (or SEED_TIER) checks of the
# given properties against that tree (VERIF_REPO), removes the worktree. /repo itself is not touched, so
# background runs are not disturbed.
#   scripts/seedcheck.sh <seeded-dir> <prop> [<prop>...]
# Prints one line per property: CAUGHT (exit 1 with a VIOLATION line), MISSED (exit 0) or TROUBLE (exit 2).
set -u
D="$(cd "$1" && pwd)"; shift
# work from a frozen copy of /verif: edits made meanwhile cannot break the run, and the evidence
# written by runs against a changed tree does not overwrite /verif/evidence
SNAP=$(mktemp -d /dev/shm/verifsnap-XXXXXX)
# /verif may be in the middle of an edit: take the copy again until it builds
for try in 1 2 3 4 5 6 7 8 9 10 11 12; do
  rsync -a --delete --exclude .git --exclude bin --exclude evidence --exclude replays --exclude seeded "${VERIF_SRC:-/verif}/" "$SNAP/"
  if (cd "$SNAP" && GOFLAGS=-mod=mod GOPROXY=off GOSUMDB=off GOTOOLCHAIN=local GOWORK=off go build ./... >/dev/null 2>&1); then break; fi
  sleep 20
done
cd "$SNAP"
WT=$(mktemp -d /dev/shm/seedwt-XXXXXX)
rmdir "$WT"
git -C /repo worktree add -q "$WT" HEAD || { echo "seedcheck: cannot create worktree"; exit 2; }
trap 'git -C /repo worktree remove --force "$WT" >/dev/null 2>&1; git -C /repo worktree prune; rm -rf "$SNAP"' EXIT
git -C "$WT" apply "$D/patch.diff" || { echo "seedcheck: patch does not apply: $D"; exit 2; }
for P in "$@"; do
  out=$(VERIF_REPO="$WT" VERIF_TIER="${SEED_TIER:-quick}" ./check.sh "$P" "${SEED_TIER:-quick}" 2>&1); rc=$?
  nv=$(echo "$out" | grep -c '^VIOLATION')
  case $rc in
    1) echo "CAUGHT  $(basename $D) $P violations=$nv $(echo "$out" | grep -m1 '^  rule=' | cut -c1-160)";;
    0) echo "MISSED  $(basename $D) $P";;
    *) echo "TROUBLE $(basename $D) $P rc=$rc $(echo "$out" | grep -m1 -E 'TROUBLE|INCONCL|NOT-REPRO' | cut -c1-200)";;
  esac
done
