#!/bin/bash
# Applies a seeded change to /repo, runs the quick checks of the given properties, undoes the change.
#   scripts/seedcheck.sh <seeded-dir> <prop> [<prop>...]
# Prints one line per property: CAUGHT (exit 1 with a VIOLATION line), MISSED (exit 0) or TROUBLE (exit 2).
set -u
D="$(cd "$1" && pwd)"; shift
cd /verif
git -C /repo diff --quiet || { echo "seedcheck: /repo has local changes, refusing"; exit 2; }
git -C /repo apply "$D/patch.diff" || { echo "seedcheck: patch does not apply: $D"; exit 2; }
trap 'git -C /repo checkout -- . ; git -C /repo clean -fdq' EXIT
for P in "$@"; do
  out=$(VERIF_TIER="${SEED_TIER:-quick}" ./check.sh "$P" "${SEED_TIER:-quick}" 2>&1); rc=$?
  nv=$(echo "$out" | grep -c '^VIOLATION')
  case $rc in
    1) echo "CAUGHT  $(basename $D) $P violations=$nv $(echo "$out" | grep -m1 '^  rule=' | cut -c1-160)";;
    0) echo "MISSED  $(basename $D) $P";;
    *) echo "TROUBLE $(basename $D) $P rc=$rc $(echo "$out" | grep -m1 -E 'TROUBLE|INCONCL|NOT-REPRO' | cut -c1-200)";;
  esac
done
