#!/bin/bash
# Confirms a seeded change delivered by a sub-agent in its worktree and files it under /verif/seeded/<name>/.
#   scripts/intake.sh /tmp/wt-C01-a seed-C01-a
# Confirms, in a fresh scratch worktree of /repo HEAD: patch applies, library builds, existing suite passes
# (demo absent), demo FAILS with the patch and PASSES without it.
set -u
WT="$1"; NAME="$2"
S="$WT/SEED"
[ -f "$S/patch.diff" ] && [ -f "$S/demo_test.go" ] || { echo "intake: missing SEED files in $WT"; exit 2; }
export GOPROXY=off GOSUMDB=off GOTOOLCHAIN=local; unset GOFLAGS
V=/tmp/intake-$$
git -C /repo worktree add -q "$V" HEAD || exit 2
trap 'git -C /repo worktree remove --force "$V" >/dev/null 2>&1' EXIT
cd "$V"
ok=1
demo() { cp "$S/demo_test.go" slog/zz_seed_demo_test.go; go test -vet=off -count=1 -run TestSeedDemo ./slog/ >/tmp/intake-demo.$$ 2>&1; rc=$?; rm -f slog/zz_seed_demo_test.go; return $rc; }
if demo; then echo "  demo passes on the unchanged tree: ok"; else echo "  DEMO FAILS ON THE UNCHANGED TREE"; tail -5 /tmp/intake-demo.$$; ok=0; fi
git apply "$S/patch.diff" || { echo "  PATCH DOES NOT APPLY"; exit 1; }
if go build ./... >/dev/null 2>&1; then echo "  builds: ok"; else echo "  DOES NOT BUILD"; ok=0; fi
if /verif/scripts/baseline.sh "$V" | tail -1 | grep -q "fail=0"; then echo "  existing suite passes with the change: ok"; else echo "  EXISTING SUITE FAILS"; ok=0; fi
if demo; then echo "  DEMO PASSES WITH THE CHANGE (does not demonstrate)"; ok=0; else echo "  demo fails with the change: ok"; fi
rm -f /tmp/intake-demo.$$
if [ $ok = 1 ]; then
  D=/verif/seeded/$NAME; mkdir -p "$D"
  cp "$S/patch.diff" "$D/patch.diff"; cp "$S/demo_test.go" "$D/demo_test.go"
  python3 - "$S/meta.json" "$D/meta.json" "$NAME" <<'PY'
import json,sys
try: m=json.load(open(sys.argv[1]))
except Exception as e: m={"note":"agent meta unreadable: %s"%e}
m["id"]=sys.argv[3]
m["origin"]="written by a sub-agent that saw only the property text and its own worktree of /repo"
m["confirmed"]="scripts/intake.sh: applies to HEAD, builds, existing suite 155/155, demo fails with / passes without"
json.dump(m,open(sys.argv[2],"w"),indent=1)
PY
  echo "intake: $NAME accepted"
else
  echo "intake: $NAME REJECTED"; exit 1
fi
