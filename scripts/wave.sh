#!/bin/bash
# Intake of a wave of sub-agent deliveries: scripts/wave.sh <suffix> <property ids...>
# For every id: confirm /tmp/wt-<id>-<suffix> (scripts/intake.sh), file it as seeded/seed-<id>-<suffix>,
# remove the scratch worktree and its prompt, then run the property's own quick check against the seed.
SUF="$1"; shift
cd /verif
for id in "$@"; do
  wt=/tmp/wt-$id-$SUF
  [ -d "$wt/SEED" ] || { echo "== $id: no delivery in $wt"; continue; }
  r=$(scripts/intake.sh "$wt" "seed-$id-$SUF" 2>&1 | tail -1)
  echo "== $id: $r"
  case "$r" in *accepted*) git -C /repo worktree remove --force "$wt"; rm -f /tmp/prompt-$id-$SUF.txt;; *) continue;; esac
done
git -C /repo worktree prune
for id in "$@"; do
  [ -d "seeded/seed-$id-$SUF" ] || continue
  scripts/seedcheck.sh "seeded/seed-$id-$SUF" "$id" 2>&1 | tail -1 | cut -c1-230
done
