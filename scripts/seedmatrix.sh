#!/bin/bash
# Sensitivity across PRNG values: every seeded change (not the refactorings) against the quick check of the
# property it breaks, under several VERIF_SEED values. Writes seeded/MATRIX.md: one row per seed, one column
# per VERIF_SEED (C = caught, m = missed, T = trouble).
#   scripts/seedmatrix.sh [seed values...]      default: 1 2 3
cd /verif
SEEDS="${*:-1 2 3}"
out=seeded/MATRIX.md
{ echo "| seeded change | property | $(echo $SEEDS | sed 's/ / | /g') |"; echo "|---|---|$(for s in $SEEDS; do printf -- '---|'; done)"; } > $out.tmp
for d in seeded/*/; do
  d=${d%/}
  case "$(basename $d)" in refactor-*) continue;; esac
  [ -f "$d/patch.diff" ] || continue
  if python3 -c "import json,sys; sys.exit(0 if json.load(open('$d/meta.json')).get('expect')=='undecided' else 1)"; then continue; fi
  props=$(python3 -c "
import json
m=json.load(open('$d/meta.json'))
print(' '.join(m.get('breaks') or [m.get('property')]))")
  for p in $props; do
    row="| $(basename $d) | $p |"
    for s in $SEEDS; do
      r=$(VERIF_SEED=$s scripts/seedcheck.sh "$d" "$p" 2>&1 | grep -E "^(CAUGHT|MISSED|TROUBLE)" | head -1 | cut -c1-7)
      case "$r" in CAUGHT*) row="$row C |";; MISSED*) row="$row m |";; *) row="$row T |";; esac
    done
    echo "$row" >> $out.tmp
    echo "$row"
  done
done
mv $out.tmp $out
