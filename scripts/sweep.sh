#!/bin/bash
# scripts/sweep.sh <tier> <VERIF_SEED>...   every claimed property at that tier under each PRNG value; one line per run
# with the exit status spelled out (a run that says nothing else must still show up), details only when not 0.
tier="$1"; shift
cd "$(dirname "$0")/.."
for s in "$@"; do
  for p in C01 C02 C03 C07 C08 C09 C10 C11 C12 C13 C15 C16 C17 C18 C19; do
    out=$(VERIF_SEED=$s ./check.sh $p $tier 2>&1); rc=$?
    echo "rc=$rc $p $tier seed=$s $(echo "$out" | grep -m1 '^done' | cut -c1-150)"
    [ $rc -ne 0 ] && echo "$out" | grep -E "VIOLATION|INCONCL|TROUBLE|FAILED|NOT-REPRO|KNOWN" | head -5
  done
done
