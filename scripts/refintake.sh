#!/bin/bash
# Intake of property-preserving rewrites delivered by sub-agents: scripts/refintake.sh <name>...   (worktree /tmp/wt-<name>)
# Files each as seeded/refactor-<name> (patch.diff, meta.json, the agent's own test as .txt), removes the scratch
# worktree and prompt, then runs every claimed property's quick check against the patched tree: no alarm is expected.
cd /verif
for n in "$@"; do
  wt=/tmp/wt-$n
  [ -f "$wt/SEED/patch.diff" ] || { echo "== $n: no delivery"; continue; }
  d=seeded/refactor-$n
  mkdir -p $d
  cp $wt/SEED/patch.diff $d/patch.diff
  cp $wt/SEED/meta.json $d/meta.json 2>/dev/null
  cp $wt/SEED/refactor_check_test.go $d/refactor_check_test.go.txt 2>/dev/null
  git -C /repo worktree remove --force $wt; rm -f /tmp/prompt-$n.txt
  echo "== $n: filed ($(wc -l < $d/patch.diff) diff lines)"
done
git -C /repo worktree prune
for n in "$@"; do
  [ -f seeded/refactor-$n/patch.diff ] || continue
  echo "-- $n"
  scripts/allchecks.sh seeded/refactor-$n/patch.diff 2>&1 | grep -v "^OK" | cut -c1-330
done
