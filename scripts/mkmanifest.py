#!/usr/bin/env python3
"""Regenerates /verif/MANIFEST.json from the table below (run after claiming or withdrawing a property)."""
import json, os
HERE = os.path.dirname(os.path.dirname(os.path.abspath(__file__)))

NA = [
 ("C04", "JSON encoding is a pure function of one call's input (message, attributes, flags): no schedule, clock, fault or history for a simulator to control; the history facet of the encoders is C09."),
 ("C05", "logfmt encoding is a pure function of one call's input; deciding it is input generation plus parsing, not simulation."),
 ("C06", "colored layout / SGR hygiene is a pure function of one call's input and presentation settings; the terminal state is a fold over one record's bytes."),
 ("C14", "caller attribution is a pure function of the static call stack and a per-logger integer; its quantifier is a finite build/configuration table without nondeterminism, time, I/O fault or interleaving."),
 ("C20", "duration helpers are two pure functions over int64/strings with no state at all."),
]

# id -> (engine, category, level text, level note, technique, design ref)
CHECKS = {
 "C01": ("HIST", "exploration",
   "Seeded search over configuration histories (levels, run-time level registrations, sticky process-wide debug mode, production/testing process mode), with questions asked in the middle of the history and asked again later (an answer must not outlive the state it was given in), each history followed by an exhaustive sweep of every logger x severity x public entry point in the reached state; every call is observed at simulated destinations and compared with the admission rule of the statement and with every other entry point. Sampling of histories, exhaustive within a reached state.",
   "Trusted: the overlay rewriter, the world interpreter, Level() getter as the logger's level (its agreement with the history is C10's business), is.DebugMode() as the debug-mode state. OK/Success/Fail and non-ordinal logger levels are checked for Off/Always and cross-entry-point consistency only (the statement does not give their class).",
   "deterministic simulation: seeded op histories in one world process per episode, I/O observed at simulated destinations, reference admission model", "DESIGN.md §5 C01"),
 "C03": ("HIST+PROC", "exploration",
   "Seeded writer-configuration histories (method and New-option forms) over a pool of simulated destinations of every interface kind, probed after every op at error-class, normal-class, per-severity and registered custom severities; the package defaults are observed as the real fd 1/2 of the world process; each destination's event sequence is checked for the severity notification.",
   "Not demanded (statement silent): removal of a writer present twice (never generated), nil writer arguments (never generated), whether ResetWriters forgets per-severity writers (probes of those severities are skipped until re-established).",
   "deterministic simulation: op histories vs reference routing model, per-writer I/O event logs, real stdout/stderr of the world process", "DESIGN.md §5 C03"),
 "C07": ("HIST", "exploration",
   "Seeded logger chains, inherit-flag toggles, context keys and call-site argument lists with forced key collisions; every attribute occurrence carries a unique value so the decoded record (all three formats) is compared pair by pair, in order, with a reference merge; the pool tape varies whether the per-call attribute slice and formatting buffer are fresh or recycled.",
   "Keys and values stay inside an encoding-safe alphabet (C04-C06 are not claimed); in JSON mode groups are compared on leaf keys only because the JSON group syntax is C04's business.",
   "deterministic simulation: history + pool-recycling tape, reference merge model, tolerant decoder", "DESIGN.md §5 C07"),
 "C10": ("HIST+PROC", "exploration",
   "Seeded histories over a growing logger forest with a reference tree run in lock-step: after every op the getters of all loggers are compared (isolation), New/With/Set return-value identity is checked, lookups are compared with the creation history; the simulated clock's granularity and the map-order tape are part of the search because anonymous child names come from the clock and the child index is a Go map; final probe records check the settings without getters (attrs, writers on real fd 1/2, UTC mode, layout).",
   "In testing-mode worlds nothing is claimed about the initial default level (learned from the first snapshot). UTC mode and layout are used with explicit arguments only.",
   "deterministic simulation: histories vs reference tree, simulated clock granularity, map-iteration-order tape", "DESIGN.md §5 C10"),
 "C11": ("HIST", "exploration",
   "Complete enumeration of all mode-call sequences up to length 3 (quick) / 4 (thorough) over a parent and child, plus seeded longer sequences with With*/New options over up to 4 loggers; getters of every logger after every op, probe records between the mode calls and one per logger at the end, whose bytes must have the shape of the state (a logfmt record must be a well-formed key=value line from end to end) against the three-state model.",
   "Zero boolean arguments are read as true; several booleans are only generated with equal values.",
   "deterministic simulation (history refinement against a 3-state model; exhaustive core)", "DESIGN.md §5 C11"),
 "C15": ("HIST+PROC", "exploration",
   "Seeded handler-derivation histories and bridge tables: records enter through a real log/slog.Logger, through explicit slog.Records given to Enabled+Handle, through log.Logger on the bridge and through Entry.Log; emitted-once, severity name, message, record time (an explicit Record's own instant; for a log/slog.Logger's records, which the standard library stamps itself, the simulated clock's reading handed on by the world) and attributes are decoded at the simulated destination of the underlying logger; after the first round of answers the underlying logger's level makes excursions (through Debug, which switches the process-wide debug mode on) and every handler is asked again; a third of the production worlds run with interrupts enabled so that a wrongly terminating level mapping kills the world process.",
   "Attribute kinds bool/float/duration/time are checked by key presence only (their rendering is C04/C05); duplicate keys are not generated (C07).",
   "deterministic simulation: derivation histories, I/O counts at simulated destinations, process death as observation", "DESIGN.md §5 C15"),
 "C16": ("HIST", "exploration",
   "The simulated clock (years 0001-9999, zones, jumps, granularity) is the only clock logg reads; configurations (flags, UTC mode, layouts, formats) are sampled; the printed time text must equal the record's instant - the single clock read of the call, or the explicit instant of WriteThru - moved to the zone the statement gives and formatted with the logger layout or the exported layout constant matching the flags. A third of the episodes also hand explicit slog.Records (the epoch, the last instant of year 9999; not the zero time, which by log/slog's contract means no time - that instant goes to WriteThru) to the log/slog adapter; bursts of records share one Unix second in different zones; a third of the explicit instants carry time.Local itself while the world has set it to another zone than the process started under.",
   "For the three flag sets without a matching exported layout any exported layout is accepted. time.Time.Format is the reference for 'formatted with layout'.",
   "deterministic simulation: simulated clock with jumps/zones, configuration sampling", "DESIGN.md §5 C16"),
 "C17": ("PROC", "exploration",
   "One world process per registration history (the registry has no unregister): after every RegisterLevel every known level is round-tripped through all name/marshal forms, a refused call must leave the observable registry byte-identical to the query taken just before it, an accepted one is followed by a gated and a routed probe.",
   "Must-refuse = value already a level or title exactly equal to a name in use; a title differing only in case from a name in use may be accepted or refused (round trips must hold either way). Titles are non-empty ASCII.",
   "deterministic simulation: process-per-history, before/after registry snapshots, reference registry", "DESIGN.md §5 C17"),
 "C18": ("HIST", "exploration",
   "World parameters $HOME/cwd and mapping histories; each base history runs under 24 map-order tapes so that every iteration order of a mapping table of <= 4 entries is exercised; queries through Safety, SafetyFiles and the caller.file of records; order-independent oracle (no protected prefix leaks, outside paths unchanged or shorter relative equivalent, exactly-one-mapping => only the prefix replaced).",
   "ResetKnownPathMapping and removal of the home/cwd entries are not generated (the statement protects the home directory unconditionally). Queries under /Volumes/ are not judged.",
   "deterministic simulation: enumerated map-iteration orders through the overlay seam, histories, world parameters", "DESIGN.md §5 C18"),
}


CHECKS.update({
 "C02": ("HIST+CONC", "exploration",
   "Seeded calls of every non-terminating severity through every entry point (also the package-level functions) with generated well-formed and malformed argument lists of every Go kind, over three formats, random flags, logger levels and 1-3 destinations per class; the per-destination I/O history of each call is the observable: no panic, exactly one Write per selected destination ending in a newline, none when not admitted, a single newline byte for blank Print/Println. The pool tape recycles buffers and attribute slices between calls; a quarter of the episodes issue the same calls from 2-3 concurrent caller tasks under the seeded scheduler and one in eight is a crowd (4-10 tasks, 12-31 calls, all on one logger, stalled Writes), where writes are attributed to calls by the call token in the payload (which goroutine performs the Write is not part of the statement).",
   "The argument space itself is workload generation; the simulation ingredients are the recorded I/O history per destination and the pool-recycling tape. Admission and selection come from the C01/C03 reference models. Values whose own methods panic and cyclic values are excluded by the statement.",
   "deterministic simulation: per-call I/O histories at simulated destinations, pool-recycling tape, reference admission and routing models", "DESIGN.md §5 C02"),
 "C08": ("CONC+CONC-race", "exploration",
   "Seeded search over schedules of 1-64 caller tasks: exactly one task runs at a time and a tape decides who runs at every user-callback boundary (attribute Key/Value, String, Error, context Value, Write entry/exit, stalls), so preemption happens inside the sort, dedupe and serialisation of a record. Every payload must be the complete record of exactly one call (unique token and values - per-call attributes and, in a third of the episodes, the values the call's own context holds for the logger's context keys - and with the caller field on, the call site of the issuing statement), per-destination conservation must hold (records are matched to calls by content, not by the goroutine that wrote them), and the same workloads run in a race-transparent world (tasks parked by spinning in norace code, GOMAXPROCS=1) where the Go race detector must stay silent. Scheduling styles are mixed per episode: stay-probability, PCT-like d preemptions at random depths, and both in a world built with overlay rule R4 where every function entry of package slog (463 sites) is a yield point.",
   "Preemption points are callback boundaries (all episodes) and function entries of package slog (fine-world episodes); a switch between two statements without a call in between is reachable only for the race detector. The race detector keeps a bounded access history (race episodes are short). In the race world the real sync.Pool runs, so pooled-object choice is not on the tape there (replay retries up to 8 times).",
   "deterministic simulation: seeded scheduler over real goroutines, schedule tape, destination stalls, happens-before race detection made schedule-deterministic", "DESIGN.md §5 C08, §2.4"),
 "C09": ("CONC", "exploration",
   "The same probe call (fixed timestamp through WriteThru, fixed call site) is issued in the pristine world process and again after seeded histories of 0-200 other calls on 1-4 tasks; the pool tape decides whether the probe is formatted in a fresh, the most recently recycled or an older context; payloads must be byte-identical. Histories include records from the probe's own call site, arbitrary attribute lists (every value kind, reserved key names, stack-carrying errors), multi-line messages, custom levels registered with one or two colours and instants next to the probe's own (same instant in another zone, same second, +-1 h ...). Every sixth episode compares twin loggers: made and configured by the same calls, one of them printing records between the configuration calls. Another sixth are cold episodes: the probe is printed after the history only and compared with the bytes of a reference world (a second process given the same set-up and the probe alone), so state filled at first sight and kept for the life of the process shows; their texts contain code points that collide in truncated-index tables.",
   "No configuration change between the two probes; in twin episodes both loggers see the same configuration calls (generator invariants, enforced for minimised scenarios).",
   "deterministic simulation: histories x schedules x pool-recycling tape, byte equality", "DESIGN.md §5 C09"),
 "C12": ("PROC+CONC", "fault_enumeration",
   "Complete enumeration of the termination matrix (entry point x flags x process mode x admitted x format = 672 cells), each in its own world process whose death is the crash point: the record must be complete in a real file read after the process is gone, a Panic must be recoverable with the message as value, a Fatal must exit with status 253 with nothing after the record, every other cell and every other severity must run on to the end marker. A third of the seed variants put a permanently failing member in front of the durable one in the error device (crash point x fault), a quarter make the terminating call while calls of one or two other goroutines on another logger are in flight under the seeded scheduler - Writes that stall, stall and then fail (their diagnostic being one more call in flight), or never return - (the cell must terminate by itself, the other calls must neither panic nor exit), some cell calls carry 60-2500 attributes, and a third of the world processes are started with further command-line arguments that are no -test.* flags (serve -bench, --testing -v, ...).",
   "Process mode is spoofed through argv0/-test.* exactly as hedzr/is reads it. Messages, attributes and surrounding calls are sampled per seed.",
   "deterministic simulation: one OS process per cell, process death as crash point, durable destination read after death", "DESIGN.md §5 C12"),
 "C13": ("CONC", "fault_enumeration",
   "Exhaustive core: every succeed/fail assignment to the first K (8 quick, 10 thorough) Write attempts of each listed configuration, plus sampled longer fault sequences of all kinds (error, partial write with error, short write without error, stall), also on the diagnostic's own write and under 2-4 concurrent caller tasks, each followed by a fault-free tail; per call: normal return, whole record exactly once on every non-failing selected destination, at most one diagnostic and only at the warning destinations, attempt budget; tail: full delivery (no sticky state).",
   "Faults are attached to write attempts, so they always land inside a call. After a short write without error a diagnostic is allowed, never required (the statement does not say whether that is a failed Write). The package defaults (fd 1/2) are not part of these configurations.",
   "deterministic simulation with fault injection at simulated destinations: enumerated fault assignments + seeded fault sequences", "DESIGN.md §5 C13"),
 "C19": ("BUF", "exploration",
   "Seeded histories of the 20 listed methods on a PrintCtx and on bytes.Buffer (the reference model, run in lock-step in the same world) with boundary arguments and fault-injecting io.Reader/io.Writer peers given an identical fault script; after every call the results, error identity, panic and remaining contents must agree, and every string a call has returned is re-read after every later step (a string is a value: later writes must not show through it).",
   "Reference = bytes.Buffer of the default toolchain. runtime.Error panics are compared as a class, other panics and errors by text after mapping the type name. Sizes that would really allocate more than 1 MiB are not generated.",
   "deterministic simulation: lock-step differential execution against the reference, faulty I/O peers", "DESIGN.md §5 C19"),
})

def main():
    checks = []
    for pid in sorted(CHECKS):
        eng, cat, text, note, tech, ref = CHECKS[pid]
        checks.append({
            "property_id": pid,
            "quick_cmd": f"./check.sh {pid} quick",
            "thorough_cmd": f"./check.sh {pid} thorough",
            "evidence_file": f"/verif/evidence/{pid}.json",
            "replay_cmd_template": "./check.sh replay {path}",
            "engine": eng,
            "level_claimed": {"category": cat, "text": text, "design_ref": ref},
            "level_note": note,
            "technique": tech,
        })
    man = {
        "version": 1,
        "setup_cmd": "./check.sh setup",
        "hooks": {
            "guard": "verif (build tag on the file injected at check time through `go build -overlay`; nothing is committed in /repo)",
            "enable": "go build -tags verif -overlay <generated from /repo's working tree by internal/instrument> ./cmd/simworld",
            "baseline_off_cmd": "/verif/scripts/baseline.sh /repo",
            "source_commits": [],
            "add_only": True,
        },
        "engines": [
            {"name": "HIST", "path": "internal/world + internal/props", "serves_properties": [p for p in sorted(CHECKS) if CHECKS[p][0].startswith("HIST")], "kind_free_text": "one task, sequential op history against the reference model, one fresh world process per episode"},
            {"name": "CONC", "path": "internal/world/sched.go", "serves_properties": [p for p in sorted(CHECKS) if "CONC" in CHECKS[p][0]], "kind_free_text": "many tasks under the seeded scheduler (one released at a time, yields at user callbacks; locks, channel operations, selects, sync.Cond and sync.WaitGroup of package slog report 'would block' to it through overlay rules R5/R7; goroutines the library starts itself are tasks too, rule R8), destination faults (error, partial, short, stall, stall-then-error, hang); race-transparent variant under the Go race detector"},
            {"name": "PROC", "path": "internal/orch/runner.go", "serves_properties": [p for p in sorted(CHECKS) if "PROC" in CHECKS[p][0]], "kind_free_text": "observations from outside the process: exit status, durable bytes at death, fd 1/2, process mode"},
            {"name": "BUF", "path": "internal/world/buf.go", "serves_properties": [p for p in sorted(CHECKS) if "BUF" in CHECKS[p][0]], "kind_free_text": "PrintCtx vs bytes.Buffer in lock-step with fault-injecting readers/writers"},
        ],
        "checks": checks,
        "notes": "Deterministic simulation with fault injection; see DESIGN.md. Exit codes: 0 held / 1 VIOLATION (replays from its file) / 2 build, budget or harness trouble. Known findings: known_findings.json.",
        "not_applicable": [{"property_id": i, "reason": r} for i, r in NA],
    }
    with open(os.path.join(HERE, "MANIFEST.json"), "w") as f:
        json.dump(man, f, indent=1)
        f.write("\n")

if __name__ == "__main__":
    main()
