#!/usr/bin/env python3
"""Regenerates /verif/MANIFEST.json from the table below (run after claiming or withdrawing a property)."""
import json, os
HERE = os.path.dirname(os.path.dirname(os.path.abspath(__file__)))

NA = [
 ("C04", "JSON encoding is a pure function of one call's input (message, attributes, flags): no schedule, clock, fault or history for a simulator to control; the history facet of the encoders is C09."),
 ("C05", "logfmt encoding is a pure function of one call's input; deciding it is input generation plus parsing, not simulation."),
 ("C06", "colored layout / SGR hygiene is a pure function of one call's input and presentation settings; the terminal state is a fold over one record's bytes."),
 ("C14", "caller attribution is a pure function of the static call stack and a per-logger integer; its quantifier is a finite build/configuration table without nondeterminism, time, I/O fault or interleaving."),
 ("C20", "duration helpers are two pure functions over int64/strings with no state at all."),
]

# id -> (engine, category, level text, level note, technique, design ref)
CHECKS = {
 "C01": ("HIST", "exploration",
   "Seeded search over configuration histories (levels, run-time level registrations, sticky process-wide debug mode, production/testing process mode), each followed by an exhaustive sweep of every logger x severity x public entry point in the reached state; every call is observed at simulated destinations and compared with the admission rule of the statement and with every other entry point. Sampling of histories, exhaustive within a reached state.",
   "Trusted: the overlay rewriter, the world interpreter, Level() getter as the logger's level (its agreement with the history is C10's business), is.DebugMode() as the debug-mode state. OK/Success/Fail and non-ordinal logger levels are checked for Off/Always and cross-entry-point consistency only (the statement does not give their class).",
   "deterministic simulation: seeded op histories in one world process per episode, I/O observed at simulated destinations, reference admission model", "DESIGN.md §5 C01"),
}

def main():
    checks = []
    for pid in sorted(CHECKS):
        eng, cat, text, note, tech, ref = CHECKS[pid]
        checks.append({
            "property_id": pid,
            "quick_cmd": f"./check.sh {pid} quick",
            "thorough_cmd": f"./check.sh {pid} thorough",
            "evidence_file": f"/verif/evidence/{pid}.json",
            "replay_cmd_template": "./check.sh replay {path}",
            "engine": eng,
            "level_claimed": {"category": cat, "text": text, "design_ref": ref},
            "level_note": note,
            "technique": tech,
        })
    man = {
        "version": 1,
        "setup_cmd": "./check.sh setup",
        "hooks": {
            "guard": "verif (build tag on the file injected at check time through `go build -overlay`; nothing is committed in /repo)",
            "enable": "go build -tags verif -overlay <generated from /repo's working tree by internal/instrument> ./cmd/simworld",
            "baseline_off_cmd": "/verif/scripts/baseline.sh /repo",
            "source_commits": [],
            "add_only": True,
        },
        "engines": [
            {"name": "HIST", "path": "internal/world + internal/props", "serves_properties": [p for p in sorted(CHECKS) if CHECKS[p][0].startswith("HIST")], "kind_free_text": "one task, sequential op history against the reference model, one fresh world process per episode"},
            {"name": "CONC", "path": "internal/world/sched.go", "serves_properties": [p for p in sorted(CHECKS) if "CONC" in CHECKS[p][0]], "kind_free_text": "many tasks under the seeded scheduler (one released at a time, yields at user callbacks), destination faults; race-transparent variant under the Go race detector"},
            {"name": "PROC", "path": "internal/orch/runner.go", "serves_properties": [p for p in sorted(CHECKS) if "PROC" in CHECKS[p][0]], "kind_free_text": "observations from outside the process: exit status, durable bytes at death, fd 1/2, process mode"},
            {"name": "BUF", "path": "internal/world/buf.go", "serves_properties": [p for p in sorted(CHECKS) if "BUF" in CHECKS[p][0]], "kind_free_text": "PrintCtx vs bytes.Buffer in lock-step with fault-injecting readers/writers"},
        ],
        "checks": checks,
        "notes": "Deterministic simulation with fault injection; see DESIGN.md. Exit codes: 0 held / 1 VIOLATION (replays from its file) / 2 build, budget or harness trouble. Known findings: known_findings.json.",
        "not_applicable": [{"property_id": i, "reason": r} for i, r in NA],
    }
    with open(os.path.join(HERE, "MANIFEST.json"), "w") as f:
        json.dump(man, f, indent=1)
        f.write("\n")

if __name__ == "__main__":
    main()
