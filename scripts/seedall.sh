#!/bin/bash
# Runs every seeded change against the quick check of the property it breaks; writes seeded/RESULTS.md.
cd /verif
out=seeded/RESULTS.md
echo "| seed | property | quick check |" > $out.tmp
echo "|---|---|---|" >> $out.tmp
for d in seeded/*/; do
  d=${d%/}
  [ -f "$d/patch.diff" ] || continue
  case "$(basename $d)" in refactor-*)
    r=$(scripts/allchecks.sh "$d/patch.diff" 2>&1 | grep -v "^OK" | head -3 | tr '\n' ' ' | cut -c1-200)
    [ -z "$r" ] && r="NO ALARM on any of the 15 quick checks (as required)"
    echo "| $(basename $d) | all | ${r//|//} |" >> $out.tmp
    echo "$(basename $d): $r"
    continue;;
  esac
  props=$(python3 -c "
import json,sys
m=json.load(open('$d/meta.json'))
b=m.get('breaks') or [m.get('property')]
print(' '.join(b))")
  if python3 -c "import json,sys; sys.exit(0 if json.load(open('$d/meta.json')).get('expect')=='undecided' else 1)"; then
    echo "| $(basename $d) | $props | UNDECIDED BY DESIGN (see meta.json: the statements can be read both ways for this cell) |" >> $out.tmp
    echo "UNDECIDED $(basename $d)"
    continue
  fi
  for p in $props; do
    r=$(scripts/seedcheck.sh "$d" "$p" 2>&1 | grep -E "^(CAUGHT|MISSED|TROUBLE|seedcheck)" | head -1 | cut -c1-220)
    echo "| $(basename $d) | $p | ${r//|//} |" >> $out.tmp
    echo "$r"
  done
done
mv $out.tmp $out
