#!/bin/bash
# Runs hedzr/logg's own test suite (guard off: nothing of /verif is involved) and
# prints the number of passed / failed tests. Usage: baseline.sh [repo-dir]
REPO="${1:-/repo}"
export GOPROXY=off GOSUMDB=off GOTOOLCHAIN=local
unset GOFLAGS
pass=0; fail=0
for m in . tests; do
  out=$(cd "$REPO/$m" && go test -json -vet=off -count=1 -timeout 25m ./... 2>&1)
  p=$(echo "$out" | grep -c '"Action":"pass","Package":"[^"]*","Test"')
  f=$(echo "$out" | grep -c '"Action":"fail","Package":"[^"]*","Test"')
  pass=$((pass+p)); fail=$((fail+f))
  echo "$out" | grep '"Action":"fail"' | head -5
done
echo "baseline: pass=$pass fail=$fail"
[ "$fail" = 0 ] && [ "$pass" -ge 155 ]
