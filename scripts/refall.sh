#!/bin/bash
# Runs every property-preserving rewrite under seeded/refactor-* against all 15 quick checks again and replaces
# their rows in seeded/RESULTS.md (the seeded changes' rows are left as they are).
cd /verif
tmp=$(mktemp)
for d in seeded/refactor-*/; do
  d=${d%/}
  r=$(scripts/allchecks.sh "$d/patch.diff" 2>&1 | grep -v "^OK" | head -3 | tr '\n' ' ' | cut -c1-200)
  [ -z "$r" ] && r="NO ALARM on any of the 15 quick checks (as required)"
  echo "| $(basename $d) | all | ${r//|//} |" >> $tmp
  echo "$(basename $d): $r"
done
{ grep -v "^| refactor-" seeded/RESULTS.md | head -2; cat $tmp; grep -v "^| refactor-" seeded/RESULTS.md | tail -n +3; } > seeded/RESULTS.md.new && mv seeded/RESULTS.md.new seeded/RESULTS.md
rm -f $tmp
