#!/bin/bash
# Entry point of every registered command (see MANIFEST.json).
#   ./check.sh setup                 build the orchestrator and warm the build cache
#   ./check.sh <id> quick|thorough   run one property check (rebuilds the worlds from /repo's working tree)
#   ./check.sh replay <file>         replay a violation file against the current tree
#   ./check.sh selftest [ids]        determinism self-test (same seed => same event log, any worker count / GOMAXPROCS)
# Exit codes: 0 held / 1 VIOLATION (replays) / 2 build, budget or harness trouble.
set -u
cd "$(dirname "$0")"
export GOFLAGS=-mod=mod GOPROXY=off GOSUMDB=off GOTOOLCHAIN=local GOWORK=off
export VERIF_DIR="$(pwd)"
export VERIF_REPO="${VERIF_REPO:-/repo}"
BIN="$VERIF_DIR/bin/verif"

build_orch() {
  mkdir -p "$VERIF_DIR/bin"
  go build -o "$BIN" ./cmd/verif || { echo "BUILD-TROUBLE: orchestrator does not build"; exit 2; }
}

case "${1:-}" in
  setup)
    build_orch
    # warm the build cache (plain and race worlds) so that quick checks stay quick
    "$BIN" warm || true
    exit 0 ;;
  selftest)
    build_orch
    shift
    # generators are functions of (seed, index, tier) alone and satisfy their own well-formedness guards
    go test -count=1 -run TestGeneratorsAreFunctions ./internal/props || { echo "SELFTEST-TROUBLE: a generator is not a function of its seed"; exit 2; }
    # the overlay rewriting (rules R5, R7) keeps the meaning of the code it rewrites
    go test -count=1 ./internal/instrument || { echo "SELFTEST-TROUBLE: the overlay rewriting changes the meaning of a synthetic package"; exit 2; }
    exec "$BIN" selftest "$@" ;;
  replay)
    [ -x "$BIN" ] || build_orch
    exec "$BIN" replay "$2" ;;
  C[0-9][0-9])
    build_orch
    exec "$BIN" check "$1" "${2:-quick}" ;;
  *)
    echo "usage: $0 setup | <id> quick|thorough | replay <file>"; exit 2 ;;
esac
