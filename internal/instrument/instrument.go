// Package instrument builds, from the current working tree of hedzr/logg, the
// `go build -overlay` description that puts the simulator's seams into package
// slog (and into the one dependency file that reads the wall clock for child
// names). Nothing is written under /repo; see DESIGN.md §2.2.
//
// Rules:
//
//	R1 clock      time.Now (call or value), time.Since, time.Until -> verifNow / verifSince / verifUntil
//	R2 pool       sync.Pool{New: ...}             -> verifPool{Name: "<var>", New: ...}
//	R3 map order  range <package map | map field> -> range verifOrdered("<site>", <expr>); sync.Map -> verifSyncMap (Range order)
//	R4 yields     first statement of every func   -> verifYield(<n>)   (optional)
//	R6 randomness math/rand and math/rand/v2 package-level functions -> verifRand / verifRand2 (seeded per episode)
//	R7 channels   <-ch, ch <- v, close(ch), select without default, sync.Cond, sync.WaitGroup
//	              -> verifRecv / verifSend / verifClose, a polling select, verifCond, verifWaitGroup: a task that
//	              would block tells the scheduler (same hook as R5) instead of blocking the only running goroutine
//	R8 goroutines go f(a, b) in package slog       -> verifGo(...): the new goroutine is one more task of the scheduler
//	R5 locks      sync.Mutex / sync.RWMutex       -> verifMutex / verifRWMutex (TryLock loop that reports
//	                                                 "blocked" to the scheduler instead of blocking the
//	                                                 one running goroutine; no site on the pinned tree)
//
// All rewrites keep line numbers (text is spliced inside a line).
package instrument

import (
	"encoding/json"
	"fmt"
	"go/ast"
	"go/parser"
	"go/token"
	"os"
	"path/filepath"
	"sort"
	"strconv"
	"strings"
)

// Options selects the optional rules.
type Options struct {
	RepoDir    string // /repo
	OutDir     string // scratch directory receiving rewritten files
	FineYields bool   // R4
	ModCache   string // GOMODCACHE (for hedzr/is)
	IsVersion  string // e.g. v0.7.13 (read from go.mod of RepoDir when empty)
}

// Report says what was found; it goes into the evidence.
type Report struct {
	Seams       map[string]int    `json:"seams"`       // rule -> number of sites rewritten
	Sites       []string          `json:"sites"`       // human readable list
	OverlayFile string            `json:"overlay"`     // path of overlay.json
	Replaced    map[string]string `json:"-"`           // original path -> rewritten path
	YieldSites  []string          `json:"yield_sites"` // R4: index -> "file:func"
}

type edit struct {
	off  int // byte offset in the original file
	del  int // bytes to delete
	text string
}

// Build parses the tree and writes the overlay. A rule that finds no site is
// not an error (the check then runs with fewer seams and says so).
func Build(opt Options) (*Report, error) {
	rep := &Report{Seams: map[string]int{"R1": 0, "R2": 0, "R3": 0, "R4": 0, "R5": 0, "R6": 0, "R7": 0, "R8": 0}, Replaced: map[string]string{}}
	if err := os.MkdirAll(opt.OutDir, 0o755); err != nil {
		return nil, err
	}
	slogDir := filepath.Join(opt.RepoDir, "slog")
	ents, err := os.ReadDir(slogDir)
	if err != nil {
		return nil, err
	}
	fset := token.NewFileSet()
	type pf struct {
		path string
		src  []byte
		f    *ast.File
	}
	var files []pf
	for _, e := range ents {
		n := e.Name()
		if e.IsDir() || !strings.HasSuffix(n, ".go") || strings.HasSuffix(n, "_test.go") || n == "zz_verif_sim.go" {
			continue
		}
		p := filepath.Join(slogDir, n)
		src, err := os.ReadFile(p)
		if err != nil {
			return nil, err
		}
		f, err := parser.ParseFile(fset, p, src, parser.ParseComments)
		if err != nil {
			return nil, fmt.Errorf("parse %s: %w", p, err)
		}
		files = append(files, pf{p, src, f})
	}

	// pass 1: names of package-level map variables and of struct fields of map type.
	mapVars := map[string]bool{}
	mapFields := map[string]map[string]bool{} // field name -> struct type names that declare it as a map
	topSpecs := map[*ast.ValueSpec]bool{}
	isMapExpr := func(e ast.Expr) bool {
		switch x := e.(type) {
		case *ast.MapType:
			return true
		case *ast.CompositeLit:
			_, ok := x.Type.(*ast.MapType)
			return ok
		case *ast.CallExpr:
			if id, ok := x.Fun.(*ast.Ident); ok && id.Name == "make" && len(x.Args) > 0 {
				_, ok := x.Args[0].(*ast.MapType)
				return ok
			}
		}
		return false
	}
	for _, file := range files {
		for _, d := range file.f.Decls {
			gd, ok := d.(*ast.GenDecl)
			if !ok {
				continue
			}
			for _, sp := range gd.Specs {
				switch s := sp.(type) {
				case *ast.ValueSpec:
					topSpecs[s] = true
					if gd.Tok != token.VAR {
						continue
					}
					for i, nm := range s.Names {
						if s.Type != nil && isMapExpr(s.Type) {
							mapVars[nm.Name] = true
						} else if i < len(s.Values) && isMapExpr(s.Values[i]) {
							mapVars[nm.Name] = true
						}
					}
				case *ast.TypeSpec:
					if st, ok := s.Type.(*ast.StructType); ok {
						for _, fl := range st.Fields.List {
							if _, ok := fl.Type.(*ast.MapType); ok {
								for _, nm := range fl.Names {
									if mapFields[nm.Name] == nil {
										mapFields[nm.Name] = map[string]bool{}
									}
									mapFields[nm.Name][s.Name.Name] = true
								}
							}
						}
					}
				}
			}
		}
	}

	yieldN := 0
	selN := 0 // numbering of the rewritten select statements (labels are per function, the number only has to differ)
	embedded := map[string]bool{}
	r5done := map[*ast.SelectorExpr]bool{}
	topNames := map[string]bool{} // package-level identifiers (an alias named Mutex must not collide)
	for _, file := range files {
		for _, d := range file.f.Decls {
			switch x := d.(type) {
			case *ast.FuncDecl:
				if x.Recv == nil {
					topNames[x.Name.Name] = true
				}
			case *ast.GenDecl:
				for _, sp := range x.Specs {
					switch s := sp.(type) {
					case *ast.ValueSpec:
						for _, nm := range s.Names {
							topNames[nm.Name] = true
						}
					case *ast.TypeSpec:
						topNames[s.Name.Name] = true
					}
				}
			}
		}
	}
	for _, file := range files {
		var edits []edit
		timeAlias, syncAlias, randAlias, rand2Alias := "", "", "", ""
		for _, im := range file.f.Imports {
			p, _ := strconv.Unquote(im.Path.Value)
			name := filepath.Base(p)
			if len(name) >= 2 && name[0] == 'v' && strings.Trim(name[1:], "0123456789") == "" {
				name = filepath.Base(filepath.Dir(p)) // math/rand/v2 is package rand
			}
			if im.Name != nil {
				name = im.Name.Name
			}
			switch p {
			case "time":
				timeAlias = name
			case "sync":
				syncAlias = name
			case "math/rand":
				randAlias = name
			case "math/rand/v2":
				rand2Alias = name
			}
		}
		base := filepath.Base(file.path)
		usedR1, usedR2, usedR5, usedR6 := false, false, false, ""
		off := func(p token.Pos) int { return fset.Position(p).Offset }

		// R2 needs the variable name: walk value specs.
		ast.Inspect(file.f, func(n ast.Node) bool {
			vs, ok := n.(*ast.ValueSpec)
			if !ok || syncAlias == "" {
				return true
			}
			for i, v := range vs.Values {
				cl, ok := v.(*ast.CompositeLit)
				if !ok || i >= len(vs.Names) {
					continue
				}
				se, ok := cl.Type.(*ast.SelectorExpr)
				if !ok || se.Sel.Name != "Pool" {
					continue
				}
				if id, ok := se.X.(*ast.Ident); !ok || id.Name != syncAlias {
					continue
				}
				keyed := len(cl.Elts) == 0
				for _, el := range cl.Elts {
					if _, ok := el.(*ast.KeyValueExpr); ok {
						keyed = true
					}
				}
				if !keyed {
					continue
				}
				edits = append(edits, edit{off(se.Pos()), off(se.End()) - off(se.Pos()), "verifPool"})
				edits = append(edits, edit{off(cl.Lbrace) + 1, 0, fmt.Sprintf("Name: %q, ", vs.Names[i].Name)})
				rep.Seams["R2"]++
				rep.Sites = append(rep.Sites, fmt.Sprintf("R2 %s:%d pool %s", base, fset.Position(cl.Pos()).Line, vs.Names[i].Name))
				usedR2 = true
			}
			return true
		})

		var curFunc string
		for _, d := range file.f.Decls {
			fd, ok := d.(*ast.FuncDecl)
			varType := map[string]string{} // identifiers of this function whose struct type is written out
			if ok {
				note := func(fl *ast.FieldList) {
					if fl == nil {
						return
					}
					for _, f := range fl.List {
						tn := recvName(f.Type)
						for _, nm := range f.Names {
							varType[nm.Name] = tn
						}
					}
				}
				note(fd.Recv)
				note(fd.Type.Params)
				curFunc = fd.Name.Name
				if fd.Recv != nil && len(fd.Recv.List) > 0 {
					curFunc = recvName(fd.Recv.List[0].Type) + "." + curFunc
				}
				if opt.FineYields && fd.Body != nil && fd.Name.Name != "init" && !strings.HasPrefix(fd.Name.Name, "verif") {
					edits = append(edits, edit{off(fd.Body.Lbrace) + 1, 0, fmt.Sprintf("verifYield(%d);", yieldN)})
					rep.YieldSites = append(rep.YieldSites, base+":"+curFunc)
					yieldN++
					rep.Seams["R4"]++
				}
			} else {
				curFunc = "(decl)"
			}
			// R7: the communication of a select case is handled with its select statement, not on its own
			inComm := map[ast.Node]bool{}
			twoValue := map[ast.Node]bool{}             // receive expressions whose second result is used
			selStart := map[*ast.SelectStmt]token.Pos{} // where the outermost label of a labelled select starts
			ast.Inspect(d, func(n ast.Node) bool {
				switch x := n.(type) {
				case *ast.CommClause:
					if x.Comm != nil {
						ast.Inspect(x.Comm, func(m ast.Node) bool {
							switch m.(type) {
							case *ast.UnaryExpr, *ast.SendStmt:
								inComm[m] = true
							}
							return true
						})
					}
				case *ast.LabeledStmt:
					// a select that carries labels of its own: the label of the rewrite goes in front of them,
					// so that "break <label>" still names the select statement itself
					var inner ast.Stmt = x
					for {
						ls, ok := inner.(*ast.LabeledStmt)
						if !ok {
							break
						}
						inner = ls.Stmt
					}
					if sel, ok := inner.(*ast.SelectStmt); ok {
						if _, seen := selStart[sel]; !seen {
							selStart[sel] = x.Pos()
						}
					}
				case *ast.AssignStmt:
					if len(x.Lhs) == 2 && len(x.Rhs) == 1 {
						twoValue[x.Rhs[0]] = true
					}
				case *ast.ValueSpec:
					if len(x.Names) == 2 && len(x.Values) == 1 {
						twoValue[x.Values[0]] = true
					}
				}
				return true
			})
			r7 := func(what string, pos token.Pos) {
				rep.Seams["R7"]++
				rep.Sites = append(rep.Sites, fmt.Sprintf("R7 %s:%d %s in %s", base, fset.Position(pos).Line, what, curFunc))
			}
			skipR7 := strings.HasPrefix(curFunc, "verif")
			ast.Inspect(d, func(n ast.Node) bool {
				switch x := n.(type) {
				case *ast.UnaryExpr:
					// R7: a receive outside a select
					if x.Op == token.ARROW && !inComm[x] && !skipR7 {
						fn := "verifRecv("
						if twoValue[x] {
							fn = "verifRecv2("
						}
						edits = append(edits, edit{off(x.OpPos), 2, fn}, edit{off(x.End()), 0, ")"})
						r7("receive", x.Pos())
					}
				case *ast.SendStmt:
					if !inComm[x] && !skipR7 {
						edits = append(edits, edit{off(x.Pos()), 0, "verifSend("}, edit{off(x.Arrow), 2, ","}, edit{off(x.End()), 0, ")"})
						r7("send", x.Pos())
					}
				case *ast.CallExpr:
					if id, ok := x.Fun.(*ast.Ident); ok && id.Name == "close" && id.Obj == nil && len(x.Args) == 1 && !skipR7 {
						edits = append(edits, edit{off(id.Pos()), 5, "verifClose"})
						r7("close", x.Pos())
					}
				case *ast.GoStmt:
					// R8: function value and arguments are evaluated now (as the go statement does), the call runs in a
					// goroutine the scheduler knows. Only delimiters are rewritten, so rewrites inside the operands stand.
					c := x.Call
					multi := len(c.Args) == 1
					if multi {
						_, multi = c.Args[0].(*ast.CallExpr) // f(g()) may pass several values: left alone
					}
					if !skipR7 && !multi {
						names := make([]string, len(c.Args))
						for k := range c.Args {
							names[k] = fmt.Sprintf("verifA%d", k)
						}
						call := "verifF(" + strings.Join(names, ", ")
						if c.Ellipsis.IsValid() {
							call += "..."
						}
						call += ")"
						tail := "; return func() { " + call + " } }())"
						edits = append(edits, edit{off(x.Go), 2, "verifGo(func() func() { verifF := "})
						if len(c.Args) == 0 {
							edits = append(edits, edit{off(c.Lparen), off(c.Rparen) + 1 - off(c.Lparen), tail})
						} else {
							edits = append(edits, edit{off(c.Lparen), off(c.Args[0].Pos()) - off(c.Lparen), "; " + names[0] + " := "})
							for k := 1; k < len(c.Args); k++ {
								edits = append(edits, edit{off(c.Args[k-1].End()), off(c.Args[k].Pos()) - off(c.Args[k-1].End()), "; " + names[k] + " := "})
							}
							last := c.Args[len(c.Args)-1]
							edits = append(edits, edit{off(last.End()), off(c.Rparen) + 1 - off(last.End()), tail})
						}
						rep.Seams["R8"]++
						rep.Sites = append(rep.Sites, fmt.Sprintf("R8 %s:%d go in %s", base, fset.Position(x.Pos()).Line, curFunc))
					}
				case *ast.SelectStmt:
					// R7: a select that may block polls instead, telling the scheduler between two rounds
					hasDefault := false
					for _, c := range x.Body.List {
						if cc, ok := c.(*ast.CommClause); ok && cc.Comm == nil {
							hasDefault = true
						}
					}
					if !hasDefault && len(x.Body.List) > 0 && !skipR7 {
						selN++
						at := x.Select
						if p, ok := selStart[x]; ok {
							at = p
						}
						edits = append(edits, edit{off(at), 0, fmt.Sprintf("verifSel%d: ", selN)},
							edit{off(x.Body.Rbrace), 0, fmt.Sprintf("default: verifSelectBlocked(); goto verifSel%d\n", selN)})
						r7("select", x.Pos())
					}
				case *ast.Field:
					// R5, embedded form: struct{ sync.Mutex } keeps its field name through an alias
					if len(x.Names) == 0 && syncAlias != "" {
						if se, ok := x.Type.(*ast.SelectorExpr); ok && (se.Sel.Name == "Mutex" || se.Sel.Name == "RWMutex") {
							if id, ok := se.X.(*ast.Ident); ok && id.Name == syncAlias && id.Obj == nil && !topNames[se.Sel.Name] {
								edits = append(edits, edit{off(se.Pos()), off(se.End()) - off(se.Pos()), se.Sel.Name})
								embedded[se.Sel.Name] = true
								r5done[se] = true
								rep.Seams["R5"]++
								rep.Sites = append(rep.Sites, fmt.Sprintf("R5 %s:%d embedded %s in %s", base, fset.Position(se.Pos()).Line, se.Sel.Name, curFunc))
								usedR5 = true
							}
						}
					}
				case *ast.SelectorExpr:
					// R1: time.Now (called or taken as a function value), time.Since, time.Until
					if timeAlias != "" && (x.Sel.Name == "Now" || x.Sel.Name == "Since" || x.Sel.Name == "Until") {
						if id, ok := x.X.(*ast.Ident); ok && id.Name == timeAlias && id.Obj == nil {
							edits = append(edits, edit{off(x.Pos()), off(x.End()) - off(x.Pos()), "verif" + x.Sel.Name})
							rep.Seams["R1"]++
							rep.Sites = append(rep.Sites, fmt.Sprintf("R1 %s:%d %s", base, fset.Position(x.Pos()).Line, curFunc))
							usedR1 = true
						}
						return true
					}
					// R6: package-level functions of math/rand and math/rand/v2 -> a generator the simulator seeds
					if id, ok := x.X.(*ast.Ident); ok && id.Obj == nil {
						if (id.Name == randAlias && randAlias != "" && randV1[x.Sel.Name]) || (id.Name == rand2Alias && rand2Alias != "" && randV2[x.Sel.Name]) {
							repl := "verifRand"
							if id.Name == rand2Alias && rand2Alias != "" {
								repl = "verifRand2"
							}
							edits = append(edits, edit{off(x.X.Pos()), off(x.X.End()) - off(x.X.Pos()), repl})
							rep.Seams["R6"]++
							rep.Sites = append(rep.Sites, fmt.Sprintf("R6 %s:%d %s.%s in %s", base, fset.Position(x.Pos()).Line, id.Name, x.Sel.Name, curFunc))
							usedR6 = id.Name
							return true
						}
					}
					// R3b: sync.Map in any type position -> a map whose Range order the simulator decides
					if syncAlias != "" && x.Sel.Name == "Map" {
						if id, ok := x.X.(*ast.Ident); ok && id.Name == syncAlias && id.Obj == nil {
							edits = append(edits, edit{off(x.Pos()), off(x.End()) - off(x.Pos()), "verifSyncMap"})
							rep.Seams["R3"]++
							rep.Sites = append(rep.Sites, fmt.Sprintf("R3 %s:%d sync.Map in %s", base, fset.Position(x.Pos()).Line, curFunc))
							usedR5 = true
						}
						return true
					}
					// R7: sync.Cond, sync.NewCond, sync.WaitGroup -> waits the scheduler sees
					if syncAlias != "" && (x.Sel.Name == "Cond" || x.Sel.Name == "NewCond" || x.Sel.Name == "WaitGroup") {
						if id, ok := x.X.(*ast.Ident); ok && id.Name == syncAlias && id.Obj == nil {
							edits = append(edits, edit{off(x.Pos()), off(x.End()) - off(x.Pos()), "verif" + x.Sel.Name})
							rep.Seams["R7"]++
							rep.Sites = append(rep.Sites, fmt.Sprintf("R7 %s:%d sync.%s in %s", base, fset.Position(x.Pos()).Line, x.Sel.Name, curFunc))
							usedR5 = true
						}
						return true
					}
					// R5: sync.Mutex / sync.RWMutex in any type position -> scheduler-aware locks
					if syncAlias == "" || r5done[x] || (x.Sel.Name != "Mutex" && x.Sel.Name != "RWMutex") {
						return true
					}
					if id, ok := x.X.(*ast.Ident); ok && id.Name == syncAlias && id.Obj == nil {
						edits = append(edits, edit{off(x.Pos()), off(x.End()) - off(x.Pos()), "verif" + x.Sel.Name})
						rep.Seams["R5"]++
						rep.Sites = append(rep.Sites, fmt.Sprintf("R5 %s:%d %s in %s", base, fset.Position(x.Pos()).Line, x.Sel.Name, curFunc))
						usedR5 = true
					}
				case *ast.RangeStmt:
					name := ""
					switch e := x.X.(type) {
					case *ast.Ident:
						if mapVars[e.Name] {
							// the package-level variable itself, not a local of the same name
							if e.Obj == nil {
								name = e.Name
							} else if vs, ok := e.Obj.Decl.(*ast.ValueSpec); ok && topSpecs[vs] {
								name = e.Name
							}
						}
					case *ast.SelectorExpr:
						// x.field where x is the receiver or a parameter whose struct type declares field as a map
						if owners := mapFields[e.Sel.Name]; owners != nil {
							if id, ok := e.X.(*ast.Ident); ok && owners[varType[id.Name]] {
								name = e.Sel.Name
							}
						}
					}
					if name != "" {
						site := curFunc + ":" + name
						edits = append(edits, edit{off(x.X.Pos()), 0, fmt.Sprintf("verifOrdered(%q, ", site)})
						edits = append(edits, edit{off(x.X.End()), 0, ")"})
						rep.Seams["R3"]++
						rep.Sites = append(rep.Sites, fmt.Sprintf("R3 %s:%d %s", base, fset.Position(x.Pos()).Line, site))
					}
				}
				return true
			})
		}
		if len(edits) == 0 {
			continue
		}
		out := apply(file.src, edits)
		if usedR1 {
			out = append(out, []byte("\nvar _ = "+timeAlias+".Now\n")...)
		}
		if usedR2 {
			out = append(out, []byte("\nvar _ "+syncAlias+".Pool\n")...)
		}
		if usedR5 {
			out = append(out, []byte("\nvar _ "+syncAlias+".Once\n")...)
		}
		if usedR6 != "" {
			out = append(out, []byte("\nvar _ = "+usedR6+".Int\n")...)
		}
		dst := filepath.Join(opt.OutDir, "slog_"+base)
		if err := os.WriteFile(dst, out, 0o644); err != nil {
			return nil, err
		}
		rep.Replaced[file.path] = dst
	}

	// injected file in package slog
	inj := filepath.Join(opt.OutDir, "slog_zz_verif_sim.go")
	injected := injectedSlog
	for _, nm := range []string{"Mutex", "RWMutex"} {
		if embedded[nm] {
			injected += "\ntype " + nm + " = verif" + nm + "\n"
		}
	}
	if err := os.WriteFile(inj, []byte(injected), 0o644); err != nil {
		return nil, err
	}
	rep.Replaced[filepath.Join(slogDir, "zz_verif_sim.go")] = inj

	// dependency: hedzr/is stringtool.RandomStringPure reads time.Now for its seed.
	ver := opt.IsVersion
	if ver == "" {
		ver = isVersion(filepath.Join(opt.RepoDir, "go.mod"))
	}
	if ver != "" && opt.ModCache != "" {
		stDir := filepath.Join(opt.ModCache, "github.com", "hedzr", "is@"+ver, "stringtool")
		rnd := filepath.Join(stDir, "random.go")
		if src, err := os.ReadFile(rnd); err == nil && strings.Contains(string(src), "time.Now()") {
			n := strings.Count(string(src), "time.Now()")
			out := strings.ReplaceAll(string(src), "time.Now()", "verifNow()") + injectedStringtool
			dst := filepath.Join(opt.OutDir, "is_random.go")
			if err := os.WriteFile(dst, []byte(out), 0o644); err != nil {
				return nil, err
			}
			rep.Replaced[rnd] = dst
			rep.Seams["R1"] += n
			rep.Sites = append(rep.Sites, fmt.Sprintf("R1 is@%s/stringtool/random.go (%d)", ver, n))
		}
	}

	ov := struct {
		Replace map[string]string
	}{rep.Replaced}
	b, _ := json.MarshalIndent(ov, "", " ")
	rep.OverlayFile = filepath.Join(opt.OutDir, "overlay.json")
	if err := os.WriteFile(rep.OverlayFile, b, 0o644); err != nil {
		return nil, err
	}
	sort.Strings(rep.Sites)
	return rep, nil
}

var randV1 = map[string]bool{"Int": true, "Intn": true, "Int31": true, "Int31n": true, "Int63": true, "Int63n": true, "Uint32": true, "Uint64": true,
	"Float32": true, "Float64": true, "Perm": true, "Shuffle": true, "NormFloat64": true, "ExpFloat64": true, "Seed": true}
var randV2 = map[string]bool{"Int": true, "IntN": true, "Int32": true, "Int32N": true, "Int64": true, "Int64N": true, "Uint32": true, "Uint32N": true,
	"Uint64": true, "Uint64N": true, "UintN": true, "Float32": true, "Float64": true, "Perm": true, "Shuffle": true, "NormFloat64": true, "ExpFloat64": true}

func recvName(e ast.Expr) string {
	switch x := e.(type) {
	case *ast.StarExpr:
		return recvName(x.X)
	case *ast.Ident:
		return x.Name
	case *ast.IndexExpr:
		return recvName(x.X)
	}
	return "?"
}

func apply(src []byte, edits []edit) []byte {
	sort.SliceStable(edits, func(i, j int) bool { return edits[i].off < edits[j].off })
	var out []byte
	pos := 0
	for _, e := range edits {
		if e.off < pos {
			continue // overlapping (cannot happen with the rules above)
		}
		out = append(out, src[pos:e.off]...)
		out = append(out, e.text...)
		pos = e.off + e.del
	}
	out = append(out, src[pos:]...)
	return out
}

func isVersion(gomod string) string {
	b, err := os.ReadFile(gomod)
	if err != nil {
		return ""
	}
	for _, ln := range strings.Split(string(b), "\n") {
		f := strings.Fields(ln)
		for i, w := range f {
			if w == "github.com/hedzr/is" && i+1 < len(f) && strings.HasPrefix(f[i+1], "v") {
				return f[i+1]
			}
		}
	}
	return ""
}

const injectedStringtool = `

// VerifNow is the simulator's clock seam (nil = wall clock). Appended by the
// check-time overlay; the module cache itself is not modified.
var VerifNow func() time.Time

func verifNow() time.Time {
	if f := VerifNow; f != nil {
		return f()
	}
	return time.Now()
}
`

const injectedSlog = `//go:build verif

package slog

import (
	"cmp"
	"fmt"
	"iter"
	mrand "math/rand"
	mrand2 "math/rand/v2"
	"slices"
	"sync"
	"time"
	"unsafe"
)

// Seams of the deterministic simulator. Every hook is pass-through when nil.

// VerifNow replaces the wall clock.
var VerifNow func() time.Time

func verifNow() time.Time {
	if f := VerifNow; f != nil {
		return f()
	}
	return time.Now()
}

func verifSince(t time.Time) time.Duration { return verifNow().Sub(t) }
func verifUntil(t time.Time) time.Duration { return t.Sub(verifNow()) }

// VerifPoolHook decides what a pool hands out.
type VerifPoolHook interface {
	// Get returns (x, true) to hand out x, or (nil, false) to make the pool call New.
	Get(name string) (any, bool)
	// Put returns true when the hook took the object.
	Put(name string, x any) bool
}

// VerifPool is the pool-policy seam (nil = the real sync.Pool).
var VerifPool VerifPoolHook

type verifPool struct {
	Name string
	New  func() any
	once sync.Once
	real sync.Pool
}

func (p *verifPool) Get() any {
	if h := VerifPool; h != nil {
		if x, ok := h.Get(p.Name); ok {
			return x
		}
		return p.New()
	}
	p.once.Do(func() { p.real.New = p.New })
	return p.real.Get()
}

func (p *verifPool) Put(x any) {
	if h := VerifPool; h != nil {
		if h.Put(p.Name, x) {
			return
		}
		return
	}
	p.once.Do(func() { p.real.New = p.New })
	p.real.Put(x)
}

// VerifMapOrder chooses the iteration order of a ranged map: given the site and
// the number of keys (sorted ascending) it returns a permutation of 0..n-1, or
// nil for "sorted".
var VerifMapOrder func(site string, n int) []int

func verifOrdered[K comparable, V any](site string, m map[K]V) iter.Seq2[K, V] {
	return func(yield func(K, V) bool) {
		h := VerifMapOrder
		if h == nil {
			for k, v := range m {
				if !yield(k, v) {
					return
				}
			}
			return
		}
		keys := make([]K, 0, len(m))
		for k := range m {
			keys = append(keys, k)
		}
		// a canonical order for any comparable key type: by printed form, ties by nothing (distinct keys print differently)
		slices.SortFunc(keys, func(a, b K) int { return cmp.Compare(fmt.Sprint(a), fmt.Sprint(b)) })
		perm := h(site, len(keys))
		for i := range keys {
			j := i
			if i < len(perm) && perm[i] >= 0 && perm[i] < len(keys) {
				j = perm[i]
			}
			k := keys[j]
			v, ok := m[k]
			if !ok {
				continue // deleted during iteration: Go would not produce it either
			}
			if !yield(k, v) {
				return
			}
		}
	}
}

// VerifLockHook is the lock seam (rule R5): a task that finds a lock taken tells the
// scheduler instead of blocking the only running goroutine.
type VerifLockHook interface {
	// Blocked is called when the lock is held by someone else; true = "try again now",
	// false = "nobody can help, block for real".
	Blocked(key uintptr) bool
	Released(key uintptr)
}

var VerifLock VerifLockHook

type verifMutex struct{ mu sync.Mutex }

func (m *verifMutex) Lock() {
	if h := VerifLock; h != nil {
		for !m.mu.TryLock() {
			if !h.Blocked(uintptr(unsafe.Pointer(m))) {
				m.mu.Lock()
				return
			}
		}
		return
	}
	m.mu.Lock()
}

func (m *verifMutex) TryLock() bool { return m.mu.TryLock() }

func (m *verifMutex) Unlock() {
	m.mu.Unlock()
	if h := VerifLock; h != nil {
		h.Released(uintptr(unsafe.Pointer(m)))
	}
}

type verifRWMutex struct{ mu sync.RWMutex }

func (m *verifRWMutex) Lock() {
	if h := VerifLock; h != nil {
		for !m.mu.TryLock() {
			if !h.Blocked(uintptr(unsafe.Pointer(m))) {
				m.mu.Lock()
				return
			}
		}
		return
	}
	m.mu.Lock()
}

func (m *verifRWMutex) RLock() {
	if h := VerifLock; h != nil {
		for !m.mu.TryRLock() {
			if !h.Blocked(uintptr(unsafe.Pointer(m))) {
				m.mu.RLock()
				return
			}
		}
		return
	}
	m.mu.RLock()
}

func (m *verifRWMutex) TryLock() bool  { return m.mu.TryLock() }
func (m *verifRWMutex) TryRLock() bool { return m.mu.TryRLock() }

func (m *verifRWMutex) Unlock() {
	m.mu.Unlock()
	if h := VerifLock; h != nil {
		h.Released(uintptr(unsafe.Pointer(m)))
	}
}

func (m *verifRWMutex) RUnlock() {
	m.mu.RUnlock()
	if h := VerifLock; h != nil {
		h.Released(uintptr(unsafe.Pointer(m)))
	}
}

func (m *verifRWMutex) RLocker() sync.Locker { return rlocker{m} }

type rlocker struct{ m *verifRWMutex }

func (r rlocker) Lock()   { r.m.RLock() }
func (r rlocker) Unlock() { r.m.RUnlock() }

// VerifSpawn is the goroutine seam (rule R8): goroutines the library starts itself become tasks of the scheduler.
var VerifSpawn func(func())

func verifGo(f func()) {
	if h := VerifSpawn; h != nil {
		h(f)
		return
	}
	go f()
}

// Rule R7: channel operations, condition variables and wait groups of package slog. A task that would block
// reports to the scheduler through the lock seam (key = the channel) and tries again when it is run again; the
// real operation is still the one that transfers the value (and carries the happens-before edge).

// (keys of this rule are odd, lock keys are addresses and even: the scheduler tells them apart by that)
func verifChanKey[T any](ch <-chan T) uintptr { return *(*uintptr)(unsafe.Pointer(&ch)) | 1 }

func verifRecv[T any](ch <-chan T) T { v, _ := verifRecv2(ch); return v }

func verifRecv2[T any](ch <-chan T) (v T, ok bool) {
	h := VerifLock
	if h == nil || ch == nil {
		v, ok = <-ch
		return
	}
	key := verifChanKey(ch)
	for {
		select {
		case v, ok = <-ch:
			h.Released(key)
			return
		default:
		}
		if !h.Blocked(key) {
			v, ok = <-ch // nobody the scheduler knows can help: block for real
			h.Released(key)
			return
		}
	}
}

func verifSend[T any](ch chan<- T, v T) {
	h := VerifLock
	if h == nil || ch == nil {
		ch <- v
		return
	}
	key := *(*uintptr)(unsafe.Pointer(&ch)) | 1
	select {
	case ch <- v:
		h.Released(key)
		return
	default:
	}
	// it would block. Receivers poll, so a send must really wait in the channel for them to find it: a helper
	// goroutine does, the task waits for the helper under the scheduler's eyes
	done := make(chan any, 1)
	go func() {
		defer func() { done <- recover() }()
		ch <- v
	}()
	for {
		select {
		case p := <-done:
			h.Released(key)
			if p != nil {
				panic(p)
			}
			return
		default:
		}
		if !h.Blocked(key) {
			p := <-done
			h.Released(key)
			if p != nil {
				panic(p)
			}
			return
		}
	}
}

func verifClose[T any](ch chan<- T) {
	close(ch)
	if h := VerifLock; h != nil {
		h.Released(*(*uintptr)(unsafe.Pointer(&ch)) | 1)
	}
}

// verifSelectKey is what a task in a polling select waits for: any channel operation wakes it.
const verifSelectKey = ^uintptr(0)

func verifSelectBlocked() {
	if h := VerifLock; h != nil && h.Blocked(verifSelectKey) {
		return
	}
	time.Sleep(50 * time.Microsecond) // nobody the scheduler knows can help: poll in real time
}

type verifCond struct {
	L    sync.Locker
	once sync.Once
	c    *sync.Cond
	mu   sync.Mutex
	next uint64 // ticket of the next waiter (as in the runtime's notify list)
	upto uint64 // waiters with a ticket below this one have been notified
}

func verifNewCond(l sync.Locker) *verifCond { return &verifCond{L: l} }

func (c *verifCond) real() *sync.Cond {
	c.once.Do(func() { c.c = sync.NewCond(c.L) })
	return c.c
}

func (c *verifCond) Wait() {
	h := VerifLock
	if h == nil {
		c.real().Wait()
		return
	}
	key := uintptr(unsafe.Pointer(c)) | 1
	c.mu.Lock()
	t := c.next
	c.next++
	c.mu.Unlock()
	c.L.Unlock()
	for {
		c.mu.Lock()
		woken := t < c.upto
		c.mu.Unlock()
		if woken {
			break
		}
		if !h.Blocked(key) {
			// nobody the scheduler knows can help: wait for real (Signal and Broadcast also reach the real one)
			c.L.Lock()
			c.mu.Lock()
			woken = t < c.upto
			c.mu.Unlock()
			if woken {
				return
			}
			c.real().Wait()
			c.L.Unlock()
		}
	}
	c.L.Lock()
}

// Signal wakes exactly one waiter, the one that has waited longest - what sync.Cond does (its notify list hands
// out tickets in arrival order). Code that needs Broadcast and says Signal loses a wake-up here as it does there.
func (c *verifCond) Signal() {
	c.mu.Lock()
	if c.upto < c.next {
		c.upto++
	}
	c.mu.Unlock()
	if h := VerifLock; h != nil {
		h.Released(uintptr(unsafe.Pointer(c)) | 1)
		c.real().Broadcast() // (a waiter that blocks for real re-checks its ticket)
		return
	}
	c.real().Signal()
}

func (c *verifCond) Broadcast() {
	c.mu.Lock()
	c.upto = c.next
	c.mu.Unlock()
	if h := VerifLock; h != nil {
		h.Released(uintptr(unsafe.Pointer(c)) | 1)
	}
	c.real().Broadcast()
}

type verifWaitGroup struct {
	wg sync.WaitGroup
	mu sync.Mutex
	n  int
}

func (w *verifWaitGroup) Add(d int) {
	h := VerifLock // (read before the real Add: the waiter it releases may be the one that detaches the hook)
	w.mu.Lock()
	w.n += d
	z := w.n == 0
	w.mu.Unlock()
	w.wg.Add(d)
	if z && h != nil {
		h.Released(uintptr(unsafe.Pointer(w)) | 1)
	}
}

func (w *verifWaitGroup) Done() { w.Add(-1) }

func (w *verifWaitGroup) Wait() {
	h := VerifLock
	if h == nil {
		w.wg.Wait()
		return
	}
	for {
		w.mu.Lock()
		z := w.n <= 0
		w.mu.Unlock()
		if z {
			return
		}
		if !h.Blocked(uintptr(unsafe.Pointer(w)) | 1) {
			w.wg.Wait()
			return
		}
	}
}

// verifSyncMap is sync.Map with a Range order the simulator decides (same hook as rule R3).
type verifSyncMap struct{ m sync.Map }

func (s *verifSyncMap) Load(k any) (any, bool)                  { return s.m.Load(k) }
func (s *verifSyncMap) Store(k, v any)                          { s.m.Store(k, v) }
func (s *verifSyncMap) LoadOrStore(k, v any) (any, bool)        { return s.m.LoadOrStore(k, v) }
func (s *verifSyncMap) LoadAndDelete(k any) (any, bool)         { return s.m.LoadAndDelete(k) }
func (s *verifSyncMap) Delete(k any)                            { s.m.Delete(k) }
func (s *verifSyncMap) Swap(k, v any) (any, bool)               { return s.m.Swap(k, v) }
func (s *verifSyncMap) CompareAndSwap(k, o, n any) bool         { return s.m.CompareAndSwap(k, o, n) }
func (s *verifSyncMap) CompareAndDelete(k, o any) bool          { return s.m.CompareAndDelete(k, o) }
func (s *verifSyncMap) Clear()                                  { s.m.Clear() }
func (s *verifSyncMap) Range(f func(k, v any) bool) {
	h := VerifMapOrder
	if h == nil {
		s.m.Range(f)
		return
	}
	var keys []any
	s.m.Range(func(k, _ any) bool { keys = append(keys, k); return true })
	slices.SortFunc(keys, func(a, b any) int { return cmp.Compare(fmt.Sprint(a), fmt.Sprint(b)) })
	perm := h("sync.Map", len(keys))
	for i := range keys {
		j := i
		if i < len(perm) && perm[i] >= 0 && perm[i] < len(keys) {
			j = perm[i]
		}
		v, ok := s.m.Load(keys[j])
		if !ok {
			continue
		}
		if !f(keys[j], v) {
			return
		}
	}
}

// VerifRand / VerifRand2 replace the package-level generators of math/rand and math/rand/v2 (rule R6);
// nil = the real ones.
var VerifRand *mrand.Rand
var VerifRand2 *mrand2.Rand

type verifRandT struct{}
type verifRand2T struct{}

var verifRand verifRandT
var verifRand2 verifRand2T

func (verifRandT) Seed(s int64) {}
func (verifRandT) Int() int {
	if r := VerifRand; r != nil {
		return r.Int()
	}
	return mrand.Int()
}
func (verifRandT) Intn(n int) int {
	if r := VerifRand; r != nil {
		return r.Intn(n)
	}
	return mrand.Intn(n)
}
func (verifRandT) Int31() int32 {
	if r := VerifRand; r != nil {
		return r.Int31()
	}
	return mrand.Int31()
}
func (verifRandT) Int31n(n int32) int32 {
	if r := VerifRand; r != nil {
		return r.Int31n(n)
	}
	return mrand.Int31n(n)
}
func (verifRandT) Int63() int64 {
	if r := VerifRand; r != nil {
		return r.Int63()
	}
	return mrand.Int63()
}
func (verifRandT) Int63n(n int64) int64 {
	if r := VerifRand; r != nil {
		return r.Int63n(n)
	}
	return mrand.Int63n(n)
}
func (verifRandT) Uint32() uint32 {
	if r := VerifRand; r != nil {
		return r.Uint32()
	}
	return mrand.Uint32()
}
func (verifRandT) Uint64() uint64 {
	if r := VerifRand; r != nil {
		return r.Uint64()
	}
	return mrand.Uint64()
}
func (verifRandT) Float32() float32 {
	if r := VerifRand; r != nil {
		return r.Float32()
	}
	return mrand.Float32()
}
func (verifRandT) Float64() float64 {
	if r := VerifRand; r != nil {
		return r.Float64()
	}
	return mrand.Float64()
}
func (verifRandT) NormFloat64() float64 {
	if r := VerifRand; r != nil {
		return r.NormFloat64()
	}
	return mrand.NormFloat64()
}
func (verifRandT) ExpFloat64() float64 {
	if r := VerifRand; r != nil {
		return r.ExpFloat64()
	}
	return mrand.ExpFloat64()
}
func (verifRandT) Perm(n int) []int {
	if r := VerifRand; r != nil {
		return r.Perm(n)
	}
	return mrand.Perm(n)
}
func (verifRandT) Shuffle(n int, swap func(i, j int)) {
	if r := VerifRand; r != nil {
		r.Shuffle(n, swap)
		return
	}
	mrand.Shuffle(n, swap)
}

func (verifRand2T) Int() int {
	if r := VerifRand2; r != nil {
		return r.Int()
	}
	return mrand2.Int()
}
func (verifRand2T) IntN(n int) int {
	if r := VerifRand2; r != nil {
		return r.IntN(n)
	}
	return mrand2.IntN(n)
}
func (verifRand2T) Int32() int32 {
	if r := VerifRand2; r != nil {
		return r.Int32()
	}
	return mrand2.Int32()
}
func (verifRand2T) Int32N(n int32) int32 {
	if r := VerifRand2; r != nil {
		return r.Int32N(n)
	}
	return mrand2.Int32N(n)
}
func (verifRand2T) Int64() int64 {
	if r := VerifRand2; r != nil {
		return r.Int64()
	}
	return mrand2.Int64()
}
func (verifRand2T) Int64N(n int64) int64 {
	if r := VerifRand2; r != nil {
		return r.Int64N(n)
	}
	return mrand2.Int64N(n)
}
func (verifRand2T) Uint32() uint32 {
	if r := VerifRand2; r != nil {
		return r.Uint32()
	}
	return mrand2.Uint32()
}
func (verifRand2T) Uint32N(n uint32) uint32 {
	if r := VerifRand2; r != nil {
		return r.Uint32N(n)
	}
	return mrand2.Uint32N(n)
}
func (verifRand2T) Uint64() uint64 {
	if r := VerifRand2; r != nil {
		return r.Uint64()
	}
	return mrand2.Uint64()
}
func (verifRand2T) Uint64N(n uint64) uint64 {
	if r := VerifRand2; r != nil {
		return r.Uint64N(n)
	}
	return mrand2.Uint64N(n)
}
func (verifRand2T) UintN(n uint) uint {
	if r := VerifRand2; r != nil {
		return r.UintN(n)
	}
	return mrand2.UintN(n)
}
func (verifRand2T) Float32() float32 {
	if r := VerifRand2; r != nil {
		return r.Float32()
	}
	return mrand2.Float32()
}
func (verifRand2T) Float64() float64 {
	if r := VerifRand2; r != nil {
		return r.Float64()
	}
	return mrand2.Float64()
}
func (verifRand2T) NormFloat64() float64 {
	if r := VerifRand2; r != nil {
		return r.NormFloat64()
	}
	return mrand2.NormFloat64()
}
func (verifRand2T) ExpFloat64() float64 {
	if r := VerifRand2; r != nil {
		return r.ExpFloat64()
	}
	return mrand2.ExpFloat64()
}
func (verifRand2T) Perm(n int) []int {
	if r := VerifRand2; r != nil {
		return r.Perm(n)
	}
	return mrand2.Perm(n)
}
func (verifRand2T) Shuffle(n int, swap func(i, j int)) {
	if r := VerifRand2; r != nil {
		r.Shuffle(n, swap)
		return
	}
	mrand2.Shuffle(n, swap)
}

// VerifYield is the fine-grained preemption seam (rule R4).
var VerifYield func(site int)

func verifYield(site int) {
	if f := VerifYield; f != nil {
		f(site)
	}
}
`
