package instrument

import (
	"os"
	"os/exec"
	"path/filepath"
	"strings"
	"testing"
)

// A synthetic package slog with every syntactic form rule R5 and R7 rewrite. The program built on it runs
// the same workload three times - hooks off, a hook that always says "block for real", and a cooperative
// hook that only counts - and must print the same results each time: the rewriting keeps the meaning.
const synthSlog = `package slog

import (
	"sync"
	"time"
)

type gate struct {
	mu   sync.Mutex
	sync.RWMutex
	cond *sync.Cond
	wg   sync.WaitGroup
	ch   chan int
	done chan struct{}
}

func newGate() *gate {
	g := &gate{ch: make(chan int, 2), done: make(chan struct{})}
	g.cond = sync.NewCond(&g.mu)
	return g
}

type adder struct{ base int }

func (a *adder) put(out chan<- int, v int) { out <- a.base + v }

func add(out chan<- int, a, b int) { out <- a + b }

// Work exercises receives (one- and two-valued, in expressions), sends, close, selects with and
// without default, labelled selects with break and continue, Cond and WaitGroup.
func Work(n int) (sum int, log []string) {
	g := newGate()
	res := make(chan int) // unbuffered: a rendezvous
	ready := false
	g.wg.Add(2)
	go func() {
		defer g.wg.Done()
		for i := 1; i <= n; i++ {
			g.ch <- i
		}
		close(g.ch)
	}()
	go func() {
		defer g.wg.Done()
		t := 0
		for {
			v, ok := <-g.ch
			if !ok {
				break
			}
			t += v
		}
		g.mu.Lock()
		ready = true
		g.cond.Broadcast()
		g.mu.Unlock()
		res <- t
	}()
	g.mu.Lock()
	for !ready {
		g.cond.Wait()
	}
	g.mu.Unlock()
	if v := <-res; v > 0 {
		sum = v
	}
	g.wg.Wait()
	close(g.done)

	// selects
	a, b := make(chan int, 1), make(chan string, 1)
	a <- 7
	select {
	case x := <-a:
		log = append(log, "a", string(rune('0'+x)))
	case s := <-b:
		log = append(log, s)
	}
	select {
	case x := <-a:
		log = append(log, "unexpected", string(rune('0'+x)))
	default:
		log = append(log, "empty")
	}
	b <- "s"
	fin := make(chan struct{})
outer:
	for i := 0; i < 3; i++ {
	pick:
		select {
		case s, ok := <-b:
			if !ok {
				break pick
			}
			log = append(log, s)
			close(fin) // from now on only the other case is ready
			continue outer
		case <-fin:
			log = append(log, "done")
			if i == 1 {
				break outer
			}
			continue
		}
		log = append(log, "after")
	}
	// go statements: operands are evaluated when the statement runs, not when the goroutine does
	out := make(chan int, 3)
	k := 5
	go add(out, k, 1)
	k = 50
	g2 := &adder{base: 100}
	go g2.put(out, k)
	g2 = &adder{base: 1000}
	go func(vs ...int) { out <- len(vs) }([]int{1, 2, 3}...)
	got := <-out + <-out + <-out
	if got == 5+1+100+50+3 {
		log = append(log, "go")
	}
	var once sync.Once
	once.Do(func() { log = append(log, "once") })
	g.RLock()
	_ = time.Now
	g.RUnlock()
	return sum, log
}
`

const synthMain = `package main

import (
	"fmt"
	"runtime"
	"strings"
	"sync/atomic"

	"github.com/hedzr/logg/slog"
)

type hook struct {
	answer bool
	spins  atomic.Int64
}

func (h *hook) Blocked(key uintptr) bool {
	if !h.answer {
		return false
	}
	if h.spins.Add(1)%3 == 0 {
		return false // sometimes: "nobody can help", the real operation must still be right
	}
	runtime.Gosched()
	return true
}
func (h *hook) Released(key uintptr) {}

func main() {
	var outs []string
	for _, h := range []*hook{nil, {answer: false}, {answer: true}} {
		if h == nil {
			slog.VerifLock = nil
			slog.VerifSpawn = nil
		} else {
			slog.VerifLock = h
			slog.VerifSpawn = func(f func()) { go f() }
		}
		for _, n := range []int{0, 1, 5, 40} {
			s, l := slog.Work(n)
			outs = append(outs, fmt.Sprint(n, s, strings.Join(l, ",")))
		}
	}
	k := len(outs) / 3
	for i := 0; i < k; i++ {
		if outs[i] != outs[i+k] || outs[i] != outs[i+2*k] {
			fmt.Println("DIFFER", outs[i], "|", outs[i+k], "|", outs[i+2*k])
			return
		}
	}
	fmt.Println("SAME", outs[:k])
}
`

func TestRewriteKeepsMeaning(t *testing.T) {
	dir := t.TempDir()
	repo := filepath.Join(dir, "repo")
	must := func(err error) {
		t.Helper()
		if err != nil {
			t.Fatal(err)
		}
	}
	must(os.MkdirAll(filepath.Join(repo, "slog"), 0o755))
	must(os.MkdirAll(filepath.Join(repo, "cmd", "synth"), 0o755))
	must(os.WriteFile(filepath.Join(repo, "go.mod"), []byte("module github.com/hedzr/logg\n\ngo 1.23\n"), 0o644))
	must(os.WriteFile(filepath.Join(repo, "slog", "gate.go"), []byte(synthSlog), 0o644))
	must(os.WriteFile(filepath.Join(repo, "cmd", "synth", "main.go"), []byte(synthMain), 0o644))
	rep, err := Build(Options{RepoDir: repo, OutDir: filepath.Join(dir, "ov")})
	must(err)
	if rep.Seams["R7"] < 12 || rep.Seams["R5"] < 2 || rep.Seams["R8"] < 5 {
		t.Fatalf("rules found too few sites in the synthetic package: %v\n%s", rep.Seams, strings.Join(rep.Sites, "\n"))
	}
	run := func(args ...string) string {
		cmd := exec.Command("go", args...)
		cmd.Dir = repo
		cmd.Env = append(os.Environ(), "GOFLAGS=-mod=mod", "GOPROXY=off", "GOSUMDB=off", "GOTOOLCHAIN=local", "GOWORK=off")
		out, err := cmd.CombinedOutput()
		if err != nil {
			for orig, repl := range rep.Replaced {
				if b, e := os.ReadFile(repl); e == nil && strings.HasSuffix(orig, "gate.go") {
					t.Logf("rewritten %s:\n%s", orig, b)
				}
			}
			t.Fatalf("go %v: %v\n%s", args, err, out)
		}
		return string(out)
	}
	for _, extra := range [][]string{nil, {"-race"}} {
		args := append([]string{"run", "-tags", "verif", "-overlay", rep.OverlayFile}, extra...)
		out := run(append(args, "./cmd/synth")...)
		if !strings.HasPrefix(out, "SAME") {
			t.Fatalf("the rewritten package behaves differently (%v):\n%s", extra, out)
		}
		if !strings.Contains(out, "40 820a,7,empty,s,done,go,once") {
			t.Fatalf("unexpected result of the workload (%v):\n%s", extra, out)
		}
	}
}
