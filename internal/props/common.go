// Package props holds, per claimed property, the scenario generator, the
// oracle over the recorded history and the non-triviality rule.
package props

import (
	"encoding/json"
	"fmt"
	"strings"

	"verif/internal/model"
	"verif/internal/orch"
	"verif/internal/scen"
)

// All returns the claimed properties.
func All() map[string]orch.Property {
	m := map[string]orch.Property{}
	for _, p := range []orch.Property{
		&C01{},
		&C02{},
		&C03{},
		&C07{},
		&C08{},
		&C09{},
		&C10{},
		&C11{},
		&C12{},
		&C13{},
		&C15{},
		&C16{},
		&C17{},
		&C18{},
		&C19{},
	} {
		m[p.ID()] = p
	}
	return m
}

// opObs is what was observed during one op.
type opObs struct {
	Started   bool
	Ended     bool
	Writes    []scen.Event
	SetLevels []scen.Event
	Panic     *scen.Event
	Rets      []scen.Event
	Clocks    []scen.Event
	Maps      []scen.Event
	Snap      *scen.Event
	Skipped   bool
	FirstQ    int
}

func opKey(ph string, task, op int) string { return fmt.Sprintf("%s/%d/%d", ph, task, op) }

// indexOps groups the event log by op.
func indexOps(run *orch.Run) map[string]*opObs {
	m := map[string]*opObs{}
	get := func(e *scen.Event) *opObs {
		k := opKey(e.Ph, e.T, e.Op)
		o := m[k]
		if o == nil {
			o = &opObs{FirstQ: e.Q}
			m[k] = o
		}
		return o
	}
	// clock/map events carry no op: attribute to the op currently open on that task
	open := map[int]string{}
	for i := range run.Events {
		e := &run.Events[i]
		switch e.K {
		case "op":
			o := get(e)
			o.Started = true
			open[e.T] = opKey(e.Ph, e.T, e.Op)
		case "opend":
			get(e).Ended = true
			delete(open, e.T)
		case "write":
			get(e).Writes = append(get(e).Writes, *e)
		case "setlevel":
			get(e).SetLevels = append(get(e).SetLevels, *e)
		case "panic":
			get(e).Panic = e
			delete(open, e.T)
		case "ret":
			get(e).Rets = append(get(e).Rets, *e)
		case "snap":
			get(e).Snap = e
		case "skip":
			get(e).Skipped = true
		case "clock":
			if k, ok := open[e.T]; ok {
				m[k].Clocks = append(m[k].Clocks, *e)
			}
		case "map":
			if k, ok := open[e.T]; ok {
				m[k].Maps = append(m[k].Maps, *e)
			}
		}
	}
	return m
}

func retInto(o *opObs, v any) bool {
	if o == nil || len(o.Rets) == 0 {
		return false
	}
	return json.Unmarshal(o.Rets[0].V, v) == nil
}

type snapLogger struct {
	ID     int    `json:"id"`
	Name   string `json:"name"`
	Level  int    `json:"level"`
	JSON   bool   `json:"json"`
	Color  bool   `json:"color"`
	Skip   int    `json:"skip"`
	Parent int    `json:"parent"`
	Root   int    `json:"root"`
}

func snapOf(e *scen.Event) map[int]snapLogger {
	var ss []snapLogger
	if e == nil || json.Unmarshal(e.V, &ss) != nil {
		return nil
	}
	m := map[int]snapLogger{}
	for _, s := range ss {
		m[s.ID] = s
	}
	return m
}

// worldDied: the process ended without the end marker.
func worldDied(run *orch.Run) bool {
	return run.Result == nil || !run.Result.Done
}

func tok(n int) string { return fmt.Sprintf("#T%d#", n) }

func containsTok(p []byte, t string) bool { return strings.Contains(string(p), t) }

// ---- small builders ---------------------------------------------------------

func opSetWriter(l, w int, wk string) scen.Op {
	return scen.Op{Op: "set", L: l, Kind: "writer", W: w, WK: wk}
}
func opSetErrWriter(l, w int, wk string) scen.Op {
	return scen.Op{Op: "set", L: l, Kind: "errwriter", W: w, WK: wk}
}

// safe alphabet helpers (DESIGN §2.8)
const lower = "abcdefghijklmnopqrstuvwxyz"

func safeKey(r *scen.Rng, n int) string {
	if n < 1 {
		n = 1
	}
	b := make([]byte, n)
	for i := range b {
		b[i] = lower[r.Intn(26)]
	}
	s := string(b)
	switch s {
	case "time", "level", "msg", "caller", "logger":
		return s + "x"
	}
	return s
}

var sevEntryName = map[int]string{
	model.Panic: "Panic", model.Fatal: "Fatal", model.Error: "Error", model.Warn: "Warn", model.Info: "Info",
	model.Debug: "Debug", model.Trace: "Trace", model.Always: "Print", model.OK: "OK", model.Success: "Success", model.Fail: "Fail",
}

// std log/slog level values for Entry.Log
var stdLevelOf = map[int]int{model.Debug: -4, model.Info: 0, model.Warn: 4, model.Error: 8, model.Trace: -8, model.Fatal: 16, model.Panic: 17}

func jsonMarshal(v any) ([]byte, error) { return json.Marshal(v) }

// worldTerminatingSlogLevels: the log/slog level values of this build's explicit Fatal and Panic constants
// (reported by the world when it starts) - the only log/slog levels that may map to a terminating severity.
func worldTerminatingSlogLevels(run *orch.Run) map[int]bool {
	out := map[int]bool{}
	for _, e := range run.Events {
		if e.K != "start" {
			continue
		}
		var v struct {
			T []int `json:"slog_terminating"`
		}
		if json.Unmarshal(e.V, &v) == nil {
			for _, l := range v.T {
				out[l] = true
			}
		}
		break
	}
	return out
}

// worldLevelName is the name this build of logg prints for a built-in level (reported by the
// world when it starts); registered and unknown values fall back to the model's rendering,
// which is only used in messages.
func worldLevelName(run *orch.Run, l int) string {
	for _, e := range run.Events {
		if e.K != "start" {
			continue
		}
		var v struct {
			Names []string `json:"names"`
		}
		if json.Unmarshal(e.V, &v) == nil && l >= 0 && l < len(v.Names) && v.Names[l] != "" {
			return v.Names[l]
		}
		break
	}
	return model.LevelName(l)
}
