package props

import (
	"bytes"
	"fmt"
	"sort"
	"strings"

	"verif/internal/model"
	"verif/internal/orch"
	"verif/internal/scen"
)

// C03 — severity routing and writer-set configuration follow the documented model.
type C03 struct{}

func (*C03) ID() string     { return "C03" }
func (*C03) Level() string  { return "exploration" }
func (*C03) Engine() string { return "HIST+PROC" }
func (*C03) Rule() string {
	return "seeded histories of <=25 writer-configuration ops (Set/Add/Remove Writer and ErrorWriter, Add/Remove/Reset LevelWriter(s), ResetWriters, as methods and as New(...) options) over a pool of 6 simulated writers (plain, LogWriter, LevelSettable with and without Close) on fresh, configured and child loggers; after every op probe records of error-class, normal-class, per-severity and registered custom severities; the package defaults are the real fd 1 / fd 2 of the world process; distinct = hash of the op-kind sequence and final model; non-trivial = a remove or reset after an add and probes reaching >= 3 distinct destinations"
}

func (*C03) Plan(tier string) orch.Plan {
	n := 5000
	if tier == "thorough" {
		n = 300000
	}
	return orch.Plan{Episodes: n, Batch: 1}
}

var c03Kinds = map[int]string{1: "plain", 2: "wrapped", 3: "logwriter", 4: "levelsettable", 5: "levelplain", 6: "plain", c03Fan: "fan", c03Fan*10 + 1: "logwriter", c03Fan*10 + 2: "logwriter"}

// c03Fan is one caller-owned fan-out list (slog.LWs{71, 72}) that may be given to several loggers; it is
// set and added like any writer, never removed (the statement does not say what removing a list means)
const c03Fan = 7

const (
	c03CustomErr  = 21 // registered with the error-device option
	c03CustomNorm = 22 // registered without
	// the error-device option and the treated-as level are independent of each other
	c03CustomNormE = 23 // treated as Error, error device not requested  -> normal writers
	c03CustomErrI  = 24 // treated as Info, error device requested        -> error writers
	c03CustomNormF = 25 // treated as Warn, error device explicitly refused -> normal writers
)

func (p *C03) Gen(seed uint64, i int, tier string) *scen.Scenario {
	r := scen.NewRng(scen.Mix(seed, scen.HashString("C03"), uint64(i)))
	sc := &scen.Scenario{Property: "C03", Engine: "HIST+PROC", Seed: scen.Mix(seed, 103, uint64(i)) >> 12}
	sc.World.Flags = []string{"LnoInterrupt"}
	sc.World.Isolated = true
	sc.World.RealFD = true
	sc.World.Mode = scen.Pick(r, []string{"production", "testing"})
	sc.World.Clock = scen.Clock{TickNs: 1, MinStep: 40, MaxStep: 3000}

	sc.Setup = append(sc.Setup,
		scen.Op{Op: "register_level", Lvl: c03CustomErr, Name: "cerr", Opts: []scen.Op{{Kind: "errdev", B: []bool{true}}, {Kind: "treat_as", Lvl: model.Error}}},
		scen.Op{Op: "register_level", Lvl: c03CustomNorm, Name: "cnorm", Opts: []scen.Op{{Kind: "treat_as", Lvl: model.Info}}},
		scen.Op{Op: "register_level", Lvl: c03CustomNormE, Name: "cnorme", Opts: []scen.Op{{Kind: "treat_as", Lvl: scen.Pick(r, []int{model.Error, model.Panic, model.Warn})}}},
		scen.Op{Op: "register_level", Lvl: c03CustomErrI, Name: "cerri", Opts: []scen.Op{{Kind: "treat_as", Lvl: scen.Pick(r, []int{model.Info, model.Debug})}, {Kind: "errdev", B: []bool{true}}}},
		scen.Op{Op: "register_level", Lvl: c03CustomNormF, Name: "cnormf", Opts: []scen.Op{{Kind: "errdev", B: []bool{false}}, {Kind: "treat_as", Lvl: model.Warn}}},
	)
	ws := map[int]*model.Writers{}
	var loggers []int
	nextID := 1
	n := 0
	wop := func(w int) (int, string) { return w, c03Kinds[w] }
	pickW := func() int { return r.Range(1, 7) }
	errSevs := []int{model.Panic, model.Fatal, model.Error, model.Warn, model.Fail}
	normSevs := []int{model.Info, model.Debug, model.Trace, model.Always, model.OK, model.Success}
	allSevs := append(append(append([]int{}, errSevs...), normSevs...), c03CustomErr, c03CustomNorm, c03CustomNormE, c03CustomErrI, c03CustomNormF)

	probe := func(l int) {
		m := ws[l]
		sevs := map[int]bool{c03CustomErr: true, c03CustomNorm: true}
		sevs[scen.Pick(r, []int{c03CustomNormE, c03CustomErrI, c03CustomNormF})] = true
		sevs[scen.Pick(r, errSevs)] = true
		sevs[scen.Pick(r, errSevs)] = true
		sevs[scen.Pick(r, normSevs)] = true
		sevs[scen.Pick(r, normSevs)] = true
		for s := range m.Leveled {
			sevs[s] = true
		}
		for s := range m.Unsure {
			sevs[s] = true
		}
		for _, s := range allSevs {
			if !sevs[s] {
				continue
			}
			n++
			if r.Chance(1, 6) {
				// GetWriterBy(severity) must hand out exactly the destinations a record of that severity goes to
				sc.Setup = append(sc.Setup, scen.Op{Op: "get_writer_by", L: l, Lvl: s, Msg: "p" + tok(n), Tok: tok(n), Probe: true})
				continue
			}
			sc.Setup = append(sc.Setup, scen.Op{Op: "log", L: l, Entry: "LogAttrs", Lvl: s, Msg: "p" + tok(n), Tok: tok(n), Probe: true})
		}
	}
	newLogger := func() {
		id := nextID
		nextID++
		m := model.NewWriters()
		var opts []scen.Op
		if r.Chance(1, 2) {
			for k := r.Intn(4); k > 0; k-- {
				kind := scen.Pick(r, []string{"writer", "add_writer", "errwriter", "add_errwriter", "add_level_writer", "reset_writers", "reset_level_writers"})
				w, wk := wop(pickW())
				lvl := scen.Pick(r, allSevs)
				if (kind == "add_writer" && model.Contains(m.Normal, w)) || (kind == "add_errwriter" && model.Contains(m.Error, w)) || (kind == "add_level_writer" && model.Contains(m.Leveled[lvl], w)) {
					continue
				}
				opts = append(opts, scen.Op{Kind: kind, W: w, WK: wk, Lvl: lvl})
				m.Apply(kind, w, lvl)
			}
		}
		opts = append(opts, scen.Op{Kind: "level", Lvl: model.Always})
		if r.Bool() || len(loggers) == 0 {
			sc.Setup = append(sc.Setup, scen.Op{Op: "new_root", R: id, Name: fmt.Sprintf("r%d", id), Named: true, Opts: opts})
		} else {
			sc.Setup = append(sc.Setup, scen.Op{Op: "new_child", L: scen.Pick(r, loggers), R: id, Name: fmt.Sprintf("c%d", id), Named: true, Opts: opts})
		}
		if r.Chance(1, 3) {
			sc.Setup = append(sc.Setup, scen.Op{Op: "set", L: id, Kind: scen.Pick(r, []string{"json", "color"}), B: []bool{r.Bool()}})
		}
		ws[id] = m
		loggers = append(loggers, id)
		probe(id)
	}
	newLogger()
	nOps := r.Range(3, 25)
	for k := 0; k < nOps; k++ {
		if r.Chance(1, 10) && len(loggers) < 4 {
			newLogger()
			continue
		}
		if r.Chance(1, 12) && len(loggers) < 5 {
			// WithWriter / WithErrorWriter: a child that carries the writer
			id := nextID
			nextID++
			kind := scen.Pick(r, []string{"writer", "errwriter"})
			w, wk := wop(pickW())
			sc.Setup = append(sc.Setup, scen.Op{Op: "with", L: scen.Pick(r, loggers), R: id, Kind: kind, W: w, WK: wk})
			m := model.NewWriters()
			m.Apply(kind, w, 0)
			ws[id] = m
			loggers = append(loggers, id)
			probe(id)
			continue
		}
		l := scen.Pick(r, loggers)
		m := ws[l]
		kind := scen.Pick(r, []string{"writer", "add_writer", "add_writer", "remove_writer", "remove_writer", "errwriter", "add_errwriter", "add_errwriter", "remove_errwriter", "remove_errwriter",
			"add_level_writer", "add_level_writer", "remove_level_writer", "reset_level_writer", "reset_level_writers", "reset_writers"})
		w := pickW()
		lvl := scen.Pick(r, allSevs)
		switch kind {
		case "add_writer":
			if model.Contains(m.Normal, w) {
				continue
			}
		case "add_errwriter":
			if model.Contains(m.Error, w) {
				continue
			}
		case "add_level_writer":
			if model.Contains(m.Leveled[lvl], w) {
				continue
			}
		case "remove_writer":
			if len(m.Normal) > 0 && r.Chance(3, 4) {
				w = scen.Pick(r, m.Normal)
			}
			if w < 0 || w == c03Fan {
				continue
			}
		case "remove_errwriter":
			if len(m.Error) > 0 && r.Chance(3, 4) {
				w = scen.Pick(r, m.Error)
			}
			if w < 0 || w == c03Fan {
				continue
			}
		case "remove_level_writer", "reset_level_writer":
			for _, s := range sortedKeysIntSlice(m.Leveled) { // (sorted: the generator must be a function of the PRNG only)
				if l := m.Leveled[s]; len(l) > 0 && r.Chance(3, 4) {
					lvl = s
					w = l[0]
					break
				}
			}
			if kind == "remove_level_writer" && w == c03Fan {
				continue
			}
		}
		_, wk := wop(w)
		sc.Setup = append(sc.Setup, scen.Op{Op: "set", L: l, Kind: kind, W: w, WK: wk, Lvl: lvl})
		m.Apply(kind, w, lvl)
		probe(l)
		if len(loggers) > 1 && r.Chance(1, 2) {
			// no operation on one logger changes the writers of another: probe a different logger too
			if o := scen.Pick(r, loggers); o != l {
				probe(o)
			}
		}
	}
	return sc
}

func (p *C03) Check(sc *scen.Scenario, run *orch.Run, env *orch.Env) []orch.Violation {
	var out []orch.Violation
	ops := indexOps(run)
	reg := registryFromHistory(sc, ops, -1)
	kinds := map[int]string{}
	var scan func(os []scen.Op)
	scan = func(os []scen.Op) {
		for i := range os {
			if os[i].W > 0 && os[i].WK != "" && kinds[os[i].W] == "" {
				kinds[os[i].W] = os[i].WK
			}
			scan(os[i].Opts)
		}
	}
	scan(sc.Setup)

	// per-writer previous event (for the LevelSettable notification)
	lastOnWriter := map[int]*scen.Event{}
	prevOf := map[int]*scen.Event{} // write event Q -> previous event on the same writer
	for i := range run.Events {
		e := &run.Events[i]
		if e.K == "write" || e.K == "setlevel" {
			if e.K == "write" {
				prevOf[e.Q] = lastOnWriter[e.W]
			}
			lastOnWriter[e.W] = e
		}
	}

	for i := range sc.Setup {
		op := &sc.Setup[i]
		o := ops[opKey("setup", 0, i+1)]
		if o == nil {
			if worldDied(run) {
				break
			}
			continue
		}
		if o.Panic != nil {
			w := "op=" + op.Op + "/" + op.Kind
			if op.Op == "log" {
				w = "probe"
			}
			out = append(out, orch.Violation{Rule: "C03.panic", Witness: w, Detail: fmt.Sprintf("setup[%d] %s %s panicked: %s", i, op.Op, op.Kind, o.Panic.S)})
			continue
		}
		if (op.Op != "log" && op.Op != "get_writer_by") || !op.Probe || o.Skipped {
			continue
		}
		m := model.WritersFromHistory(sc.Setup, i)[op.L]
		if m == nil {
			continue
		}
		want, sure := m.Select(reg, op.Lvl)
		if !sure {
			continue
		}
		got := map[int]int{}
		for _, w := range o.Writes {
			if containsTok(w.P, op.Tok) {
				got[w.W]++
			}
		}
		got[model.Stdout] = bytes.Count(run.Stdout, []byte(op.Tok))
		got[model.Stderr] = bytes.Count(run.Stderr, []byte(op.Tok))
		exp := map[int]int{}
		for _, w := range want {
			if w == c03Fan {
				exp[c03Fan*10+1]++
				exp[c03Fan*10+2]++
				continue
			}
			exp[w]++
		}
		class := "normal"
		if len(m.Leveled[op.Lvl]) > 0 {
			class = "leveled"
		} else if reg.ErrorClass(op.Lvl) {
			class = "error"
		}
		ids := map[int]bool{model.Stdout: true, model.Stderr: true}
		for w := range got {
			ids[w] = true
		}
		for w := range exp {
			ids[w] = true
		}
		for _, w := range sortedKeysInt(ids) {
			if got[w] != exp[w] {
				rule := "C03.route.missing"
				if got[w] > exp[w] {
					rule = "C03.route.extra"
				}
				cw := w
				if w/10 == c03Fan {
					cw = c03Fan // a member of the fan-out list: its membership changes with the list's
				}
				culprit := c03Culprit(sc.Setup, i, op.L, op.Lvl, cw, reg)
				out = append(out, orch.Violation{Rule: rule, Witness: "culprit=" + culprit,
					Detail: fmt.Sprintf("probe %s (severity %s, %s class) on logger %d after setup[%d]: destination %s(%d) received it %d time(s), the configuration history denotes %d (model normal=%v error=%v leveled=%v); last op that changed its membership: %s",
						op.Tok, model.LevelName(op.Lvl), class, op.L, i, destName(w, kinds), w, got[w], exp[w], m.Normal, m.Error, m.Leveled, culprit)})
			}
		}
		// a destination that asks to be told the severity is told it immediately before each Write
		// (of a record; a raw Write through GetWriterBy is the caller's own business)
		for _, w := range o.Writes {
			if op.Op == "get_writer_by" {
				break
			}
			k := kinds[w.W]
			if k != "levelsettable" && k != "levelplain" {
				continue
			}
			prev := prevOf[w.Q]
			if prev == nil || prev.K != "setlevel" || prev.L != op.Lvl || prev.Op != w.Op {
				got := "nothing"
				if prev != nil {
					got = fmt.Sprintf("%s(level=%d)", prev.K, prev.L)
				}
				out = append(out, orch.Violation{Rule: "C03.notify", Witness: "kind=" + k,
					Detail: fmt.Sprintf("writer %d (%s) received the record %s of severity %s without being told the severity immediately before (previous event on it: %s)", w.W, k, op.Tok, model.LevelName(op.Lvl), got)})
			}
		}
	}
	if worldDied(run) {
		out = append(out, orch.Violation{Rule: "C03.terminated", Witness: "world", Detail: fmt.Sprintf("world ended early exit=%d stderr=%.300q", run.ExitCode, lastLines(run.Stderr, 300))})
	}
	return dedupe(out)
}

func sortedKeysInt(m map[int]bool) []int {
	var ks []int
	for k := range m {
		ks = append(ks, k)
	}
	sort.Ints(ks)
	return ks
}

// c03Culprit names the last op of the history after which destination w's
// membership in the list selected for severity sev changed (per the model).
func c03Culprit(setup []scen.Op, upto, l, sev, w int, reg *model.Registry) string {
	culprit := "initial"
	// which list is selected at probe time
	which := "normal"
	if mm := model.WritersFromHistory(setup, upto)[l]; mm != nil && len(mm.Leveled[sev]) > 0 {
		which = "leveled"
	} else if reg.ErrorClass(sev) {
		which = "error"
	}
	member := func(i int) bool {
		m := model.WritersFromHistory(setup, i)[l]
		if m == nil {
			m = model.NewWriters()
		}
		switch which {
		case "leveled":
			return model.Contains(m.Leveled[sev], w)
		case "error":
			return model.Contains(m.Error, w)
		}
		return model.Contains(m.Normal, w)
	}
	prev := member(0)
	for i := 0; i < upto; i++ {
		cur := member(i + 1)
		if cur != prev {
			op := &setup[i]
			culprit = op.Kind
			if op.Op != "set" {
				culprit = op.Op
				if len(op.Opts) > 0 {
					culprit += "(opts)"
				}
			}
		}
		prev = cur
	}
	return culprit
}

// lastLines is the digest of a dead world's stderr: the line that names the cause
// (runtime fatal error, panic, the scheduler's deadlock report) and the tail.
func lastLines(b []byte, n int) string {
	head := ""
	for _, ln := range strings.Split(string(b), "\n") {
		if strings.HasPrefix(ln, "fatal error:") || strings.HasPrefix(ln, "panic:") || strings.HasPrefix(ln, "verif: DEADLOCK") {
			head = ln + " ... "
			break
		}
	}
	if len(b) > n {
		b = b[len(b)-n:]
	}
	return head + string(b)
}

func destName(w int, kinds map[int]string) string {
	switch w {
	case model.Stdout:
		return "stdout"
	case model.Stderr:
		return "stderr"
	}
	return kinds[w]
}

// lastWriterOp names the most recent writer op applied to logger l before index i.
func lastWriterOp(setup []scen.Op, i, l int) string {
	for k := i - 1; k >= 0; k-- {
		op := &setup[k]
		if op.Op == "set" && op.L == l && op.Kind != "json" && op.Kind != "color" && op.Kind != "level" {
			return op.Kind
		}
		if (op.Op == "new_root" || op.Op == "new_child") && op.R == l {
			ks := []string{}
			for _, o := range op.Opts {
				if o.Kind != "level" {
					ks = append(ks, o.Kind)
				}
			}
			if len(ks) == 0 {
				return "new"
			}
			return "new(" + ks[len(ks)-1] + ")"
		}
	}
	return "none"
}

func (p *C03) Classify(sc *scen.Scenario, run *orch.Run) (string, bool) {
	var sb strings.Builder
	addSeen := false
	removeAfterAdd := false
	for i := range sc.Setup {
		op := &sc.Setup[i]
		if op.Op == "set" {
			fmt.Fprintf(&sb, "%s:%d:%d;", op.Kind, op.W, op.Lvl)
			if strings.HasPrefix(op.Kind, "add_") {
				addSeen = true
			}
			if addSeen && (strings.HasPrefix(op.Kind, "remove_") || strings.HasPrefix(op.Kind, "reset_")) {
				removeAfterAdd = true
			}
		}
		for _, o := range op.Opts {
			fmt.Fprintf(&sb, "o%s:%d;", o.Kind, o.W)
		}
	}
	dests := map[int]bool{}
	for _, e := range run.Events {
		if e.K == "write" {
			dests[e.W] = true
		}
	}
	if len(run.Stdout) > 0 {
		dests[model.Stdout] = true
	}
	if len(run.Stderr) > 0 {
		dests[model.Stderr] = true
	}
	return fmt.Sprintf("%x", scen.HashString(sb.String())), removeAfterAdd && len(dests) >= 3
}

func sortedKeysIntSlice(m map[int][]int) []int {
	ks := make([]int, 0, len(m))
	for k := range m {
		ks = append(ks, k)
	}
	sort.Ints(ks)
	return ks
}
