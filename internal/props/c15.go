package props

import (
	"fmt"
	"regexp"
	"strconv"
	"strings"
	"time"
	"unicode/utf8"

	"verif/internal/model"
	"verif/internal/orch"
	"verif/internal/scen"
)

// C15 — log/slog handler and std log bridge preserve content, severity and gating.
type C15 struct{}

func (*C15) ID() string     { return "C15" }
func (*C15) Level() string  { return "exploration" }
func (*C15) Engine() string { return "HIST+PROC" }
func (*C15) Rule() string {
	return "seeded histories: NewSlogHandler over all option combinations (nil config, NoColor, NoSource, JSON, Level) on loggers at every level; chains of <=4 WithAttrs/WithGroup derivations; records driven through a real log/slog.Logger and as explicit slog.Records (chosen time, level -20..20) through Enabled+Handle as log/slog does; attributes of the log/slog kinds (int64, uint64, string with unique values; bool, float, duration, time checked by key), nested groups, LogValuers; every (logger level, bridge severity) pair through log.Logger.Print/Println/Printf/Writer().Write with and without trailing newline; Entry.Log with level values -20..20, one quarter of the worlds in production mode with interrupts enabled; distinct = hash of the op sequence; non-trivial = a derived handler or a bridge was exercised and both admitted and rejected records occurred"
}

func (*C15) Plan(tier string) orch.Plan {
	n := 3000
	if tier == "thorough" {
		n = 300000
	}
	return orch.Plan{Episodes: n, Batch: 1}
}

var c15StdLevels = []int{-4, 0, 4, 8}

// names of the four standard log/slog levels (for messages) and their namesakes among logg's levels
var c15StdName = map[int]string{-4: "debug", 0: "info", 4: "warn", 8: "error"}
var c15Namesake = map[int]int{-4: model.Debug, 0: model.Info, 4: model.Warn, 8: model.Error}

// c15Want is the level name a record of the namesake severity carries in this build of logg
func c15Want(run *orch.Run, std int) string {
	if l, ok := c15Namesake[std]; ok {
		return worldLevelName(run, l)
	}
	return ""
}

var c15StdSev = map[int]int{-4: model.Debug, 0: model.Info, 4: model.Warn, 8: model.Error}

type c15Gen struct {
	r   *scen.Rng
	val int64
}

func (g *c15Gen) nv() int64 { g.val++; return 9000000 + g.val }

func (g *c15Gen) attr(depth int) scen.Arg {
	g.val++ // keys are unique within an episode: a key given twice is C07's business (last wins)
	k := fmt.Sprintf("%c%d", 'a'+byte(g.r.Intn(20)), g.val)
	switch c := g.r.Intn(12); {
	case c < 4:
		return scen.Arg{K: "i64", Key: k, I: g.nv()}
	case c < 5:
		return scen.Arg{K: "u64", Key: k, I: g.nv()}
	case c < 7:
		return scen.Arg{K: "s", Key: k, S: fmt.Sprintf("v%d", g.nv())}
	case c < 8:
		return scen.Arg{K: "valuer", Key: k, Items: []scen.Arg{{K: "i64", I: g.nv()}}}
	case c < 9 && depth < 2:
		a := scen.Arg{K: "group", Key: "g" + k}
		for n := g.r.Range(1, 3); n > 0; n-- {
			a.Items = append(a.Items, g.attr(depth+1))
		}
		return a
	case c < 10:
		return scen.Arg{K: "b", Key: "b" + k, B: g.r.Bool()}
	case c < 11:
		return scen.Arg{K: "dur", Key: "d" + k, I: int64(g.r.Range(1, 100000))}
	default:
		if g.r.Bool() {
			// a time with a full nanosecond part, in some zone: "all its attributes" includes its exact value
			ns := int64(946684800+g.r.Intn(900000000))*1e9 + int64(g.r.Intn(1e9))
			if g.r.Chance(1, 4) {
				ns -= ns % 1e6 // whole milliseconds
			}
			return scen.Arg{K: "time", Key: "t" + k, I: ns, S: scen.Pick(g.r, []string{"UTC", "+05:00", "-03:30"})}
		}
		return scen.Arg{K: "f", Key: "f" + k, F: float64(g.r.Range(1, 1000)) / 8}
	}
}

// c15Times lists the time-valued attributes of an argument list with their (dotted) keys.
func c15Times(as []scen.Arg, prefix string) (out []scen.Arg) {
	for i := range as {
		a := as[i]
		if prefix != "" {
			a.Key = prefix + "." + a.Key
		}
		switch a.K {
		case "time":
			out = append(out, a)
		case "group":
			out = append(out, c15Times(a.Items, a.Key)...)
		}
	}
	return
}

func (g *c15Gen) attrs(n int) []scen.Arg {
	var out []scen.Arg
	seen := map[string]bool{}
	for len(out) < n {
		a := g.attr(1)
		if seen[a.Key] {
			continue
		}
		seen[a.Key] = true
		out = append(out, a)
	}
	return out
}

// c15Raw gives some messages a tail of arbitrary bytes (valid multi-byte text, lone continuation bytes,
// truncated sequences, 0xff): "the same message" means the same bytes.
func c15Raw(r *scen.Rng, op scen.Op) scen.Op {
	if !r.Chance(1, 5) {
		return op
	}
	tails := [][]byte{[]byte("caf\xc3\xa9"), {0xff, 0xfe}, []byte("\xe2\x82"), {0x80}, []byte("\xf0\x9f\x98"), []byte("\xef\xbf\xbd real"), {0xc0, 0xaf}, []byte("ok \xe4\xb8\xad\xe6\x96\x87")}
	x := append([]byte(op.Msg+" "), scen.Pick(r, tails)...)
	if r.Bool() {
		x = append(append(x, ' '), scen.Pick(r, tails)...)
	}
	op.X = append(x, 'z')
	return op
}

func c15Msg(op *scen.Op) string {
	if len(op.X) > 0 {
		return string(op.X)
	}
	return op.Msg
}

func (p *C15) Gen(seed uint64, i int, tier string) *scen.Scenario {
	r := scen.NewRng(scen.Mix(seed, scen.HashString("C15"), uint64(i)))
	g := &c15Gen{r: r}
	sc := &scen.Scenario{Property: "C15", Engine: "HIST+PROC", Seed: scen.Mix(seed, 115, uint64(i)) >> 12}
	sc.World.Isolated = true
	sc.World.Mode = scen.Pick(r, []string{"production", "production", "testing"})
	interrupts := sc.World.Mode == "production" && r.Chance(1, 3)
	if !interrupts {
		sc.World.Flags = []string{"LnoInterrupt"}
	}
	sc.World.Clock = scen.Clock{TickNs: 1, MinStep: 40, MaxStep: 400, Zone: "+03:00"}
	L := scen.Pick(r, []int{model.Error, model.Warn, model.Info, model.Debug, model.Trace, model.Always, model.Off})
	sc.Setup = append(sc.Setup, scen.Op{Op: "new_root", R: 1, Name: "u", Named: true, Opts: []scen.Op{
		{Kind: "writer", W: 1}, {Kind: "errwriter", W: 1}, {Kind: "level", Lvl: L}, {Kind: "timefmt", S: []string{time.RFC3339Nano}}}})
	tk := 0
	nt := func() string { tk++; return tok(tk) }
	ts := func() *scen.TimeSpec {
		return &scen.TimeSpec{S: 946684800 + int64(r.Intn(900000000)), Ns: int64(r.Intn(1000000)) * 1000, Zone: scen.Pick(r, []string{"UTC", "+08:00", "-05:00"})}
	}
	useHandler := r.Chance(3, 4)
	if useHandler {
		h := scen.Op{Op: "slog_handler", L: 1, R: 1}
		if r.Chance(1, 6) {
			h.Nil = true
		} else {
			for _, o := range []string{"nocolor", "nosource", "json"} {
				if r.Bool() {
					h.S = append(h.S, o)
				}
			}
			if r.Bool() {
				h.Lvl = scen.Pick(r, []int{model.Error, model.Warn, model.Info, model.Debug})
			}
		}
		sc.Setup = append(sc.Setup, h, scen.Op{Op: "get_debug_mode"}, scen.Op{Op: "snap"})
		handlers := []int{1}
		nextH := 2
		for k := r.Intn(10); k > 0; k-- {
			from := scen.Pick(r, handlers)
			if r.Bool() {
				from = handlers[len(handlers)-1-r.Intn(minInt(2, len(handlers)))] // grow deep chains and give deep handlers siblings
			}
			if r.Chance(2, 3) {
				sc.Setup = append(sc.Setup, scen.Op{Op: "handler_with_attrs", L: from, R: nextH, Args: g.attrs(r.Range(1, 3))})
			} else {
				sc.Setup = append(sc.Setup, scen.Op{Op: "handler_with_group", L: from, R: nextH, Name: fmt.Sprintf("grp%d", nextH)})
			}
			handlers = append(handlers, nextH)
			nextH++
		}
		for _, h := range handlers {
			for _, lv := range c15StdLevels {
				sc.Setup = append(sc.Setup, scen.Op{Op: "handler_enabled", L: h, Lvl: lv})
				if r.Chance(2, 3) {
					t := nt()
					sc.Setup = append(sc.Setup, c15Raw(r, scen.Op{Op: "handler_handle", L: h, Lvl: lv, T: ts(), Msg: "h" + t, Tok: t, Args: g.attrs(r.Intn(5)), Probe: true}))
				}
				if r.Chance(1, 3) {
					t := nt()
					sc.Setup = append(sc.Setup, c15Raw(r, scen.Op{Op: "slog_log", L: h, Lvl: lv, Msg: "s" + t, Tok: t, Args: g.attrs(r.Intn(4)), Probe: true}))
				}
			}
			if r.Chance(1, 2) {
				// a non-standard level value
				lv := scen.Pick(r, []int{-20, -16, -8, -5, -1, 1, 2, 3, 5, 9, 12, 16, 17, 20})
				t := nt()
				sc.Setup = append(sc.Setup, scen.Op{Op: "handler_handle", L: h, Lvl: lv, T: ts(), Msg: "h" + t, Tok: t, Args: g.attrs(r.Intn(3)), Probe: true, Kind: "force"})
			}
		}
		// the underlying logger's gating changes after the handlers have answered once: an excursion of its
		// level (through Debug, which switches the process-wide debug mode on, and back), or the debug mode
		// itself; afterwards every handler must answer as the logger gates now
		for rounds := r.Intn(3); rounds > 0; rounds-- {
			for k := r.Range(1, 2); k > 0; k-- {
				if r.Chance(1, 4) {
					sc.Setup = append(sc.Setup, scen.Op{Op: "set_debug_mode", B: []bool{r.Bool()}})
				} else {
					sc.Setup = append(sc.Setup, scen.Op{Op: "set", L: 1, Kind: "level", Lvl: scen.Pick(r, []int{model.Debug, model.Debug, L, model.Warn, model.Info, model.Error, model.Trace})})
				}
			}
			sc.Setup = append(sc.Setup, scen.Op{Op: "get_debug_mode"}, scen.Op{Op: "snap"})
			for _, h := range handlers {
				if len(handlers) > 3 && r.Bool() {
					continue
				}
				for _, lv := range c15StdLevels {
					sc.Setup = append(sc.Setup, scen.Op{Op: "handler_enabled", L: h, Lvl: lv})
					if r.Chance(1, 2) {
						t := nt()
						sc.Setup = append(sc.Setup, scen.Op{Op: "slog_log", L: h, Lvl: lv, Msg: "s" + t, Tok: t, Args: g.attrs(r.Intn(3)), Probe: true})
					}
				}
			}
		}
	} else {
		sc.Setup = append(sc.Setup, scen.Op{Op: "set", L: 1, Kind: scen.Pick(r, []string{"json", "color"}), B: []bool{r.Bool()}},
			scen.Op{Op: "get_debug_mode"}, scen.Op{Op: "snap"})
	}
	// the bridge: every severity on this logger
	if r.Chance(2, 3) {
		sevs := []int{model.Error, model.Warn, model.Info, model.Debug, model.Trace, model.Always, model.OK, model.Fail}
		for k, S := range sevs {
			sc.Setup = append(sc.Setup, scen.Op{Op: "bridge_new", L: 1, Lvl: S, R: k + 1})
			kind := scen.Pick(r, []string{"print", "println", "printf", "write"})
			t := nt()
			msg := "b" + t
			switch r.Intn(8) {
			case 0:
				msg += "\n"
			case 1:
				msg += " two words"
			case 2:
				msg += scen.Pick(r, []string{"\r", "\r\n", "\n\n", "\n\n\n", " ", "\t", "\r\r\n", " \n"})
			case 3:
				msg = scen.Pick(r, []string{"\r", " ", "a\rb"}) + msg + scen.Pick(r, []string{"\r\n", "\r", ""})
			}
			bp := scen.Op{Op: "bridge_print", L: k + 1, Kind: kind, Msg: msg, Tok: t, Probe: true, Lvl: S}
			if msg == "b"+t {
				bp = c15Raw(r, bp) // (only messages without line-end games get a raw tail)
			}
			sc.Setup = append(sc.Setup, bp)
		}
	}
	// Entry.Log with log/slog level values
	for k := r.Range(2, 8); k > 0; k-- {
		lv := r.Range(-20, 20)
		if r.Bool() {
			lv = scen.Pick(r, c15StdLevels)
		}
		if interrupts && (lv == 16 || lv == 17) {
			continue
		}
		t := nt()
		sc.Setup = append(sc.Setup, scen.Op{Op: "log", L: 1, Entry: "Log", Lvl: lv, Msg: "e" + t, Tok: t, Probe: true})
	}
	return sc
}

// WellFormed: generator invariants the oracle relies on.
func (p *C15) WellFormed(sc *scen.Scenario) bool {
	seen := map[int64]bool{}
	keys := map[string]bool{}
	var okArgs func(as []scen.Arg) bool
	okArgs = func(as []scen.Arg) bool {
		for i := range as {
			a := &as[i]
			if !safeKeyRe.MatchString(a.Key) || keys[a.Key] {
				return false
			}
			keys[a.Key] = true
			switch a.K {
			case "i64", "u64":
				if !uniqueVal(a.I, seen) {
					return false
				}
			case "s":
				var v int64
				if _, err := fmt.Sscanf(a.S, "v%d", &v); err != nil || !uniqueVal(v, seen) {
					return false
				}
			case "valuer":
				if len(a.Items) != 1 || a.Items[0].K != "i64" || !uniqueVal(a.Items[0].I, seen) {
					return false
				}
			case "group":
				if len(a.Items) == 0 || !okArgs(a.Items) {
					return false
				}
			case "b", "dur", "f":
			case "time":
				if a.S == "" {
					return false
				}
			default:
				return false
			}
		}
		return true
	}
	for i := range sc.Setup {
		op := &sc.Setup[i]
		switch op.Op {
		case "handler_with_attrs", "handler_handle", "slog_log":
			if !okArgs(op.Args) {
				return false
			}
			if op.Op == "handler_with_attrs" && len(op.Args) == 0 {
				return false
			}
			if op.Op == "handler_handle" && op.T == nil {
				return false
			}
		case "handler_with_group":
			if !safeKeyRe.MatchString(op.Name) {
				return false
			}
		}
		if op.Probe && (op.Tok == "" || !strings.Contains(op.Msg, op.Tok)) {
			return false
		}
	}
	return true
}

var levelFieldRe = regexp.MustCompile(`"level":"([^"]*)"|level="([^"]*)"`)
var msgFieldRe = regexp.MustCompile(`"msg":("(?:[^"\\]|\\.)*")|msg=("(?:[^"\\]|\\.)*")`)

func levelField(p []byte) (string, bool) {
	if m := levelFieldRe.FindSubmatch(p); m != nil {
		return string(m[1]) + string(m[2]), true
	}
	return "", false
}

type c15Handler struct {
	base      bool
	prefix    []string // open groups
	added     []kv     // leaf key -> value of attrs added by WithAttrs (with prefix at the time)
	addedKeys []string
}

// stdAttrPairs lists the (dotted key, value) pairs of uniquely valued attributes and the plain keys of the others.
func stdAttrPairs(as []scen.Arg, prefix string) (pairs []kv, keys []string) {
	for i := range as {
		a := &as[i]
		k := a.Key
		if prefix != "" {
			k = prefix + "." + a.Key
		}
		switch a.K {
		case "i64", "u64":
			pairs = append(pairs, kv{k, a.I})
		case "s":
			var v int64
			fmt.Sscanf(strings.TrimPrefix(a.S, "v"), "%d", &v)
			pairs = append(pairs, kv{k, v})
		case "valuer":
			if len(a.Items) > 0 {
				pairs = append(pairs, kv{k, a.Items[0].I})
			}
		case "group":
			p2, k2 := stdAttrPairs(a.Items, k)
			pairs = append(pairs, p2...)
			keys = append(keys, k2...)
		default:
			keys = append(keys, k)
		}
	}
	return
}

var c15ValueRe = regexp.MustCompile(`(?:"?([A-Za-z0-9_.\-]+)"?(?:=|:))"?v?(9[0-9]{6})\b`)

func (p *C15) Check(sc *scen.Scenario, run *orch.Run, env *orch.Env) []orch.Violation {
	var out []orch.Violation
	add := func(rule, witness, format string, a ...any) {
		out = append(out, orch.Violation{Rule: rule, Witness: witness, Detail: fmt.Sprintf(format, a...)})
	}
	ops := indexOps(run)
	reg := model.NewRegistry()
	debug := false
	L := -1
	format := fmtColor
	hs := map[int]*c15Handler{}
	died := worldDied(run)
	lastStarted := ""
	for i := range sc.Setup {
		op := &sc.Setup[i]
		o := ops[opKey("setup", 0, i+1)]
		if o == nil {
			continue
		}
		if o.Started && !o.Ended && o.Panic == nil {
			lastStarted = fmt.Sprintf("setup[%d] %s %s lvl=%d", i, op.Op, op.Entry, op.Lvl)
		}
		if o.Skipped {
			continue
		}
		if o.Panic != nil {
			add("C15.panic", "op="+op.Op+op.Entry, "setup[%d] %s panicked: %s", i, op.Op, o.Panic.S)
			continue
		}
		admitted := func(sev int) model.Decision {
			if L < 0 {
				return model.Unknown
			}
			return reg.Admitted(L, sev, debug)
		}
		// common checks on an emitted record
		checkRecord := func(how string, sev int, wantLevelName string, wantMsg string, h *c15Handler, args []scen.Arg, T *scen.TimeSpec) {
			want := admitted(sev)
			n := 0
			var pl []byte
			for _, w := range o.Writes {
				if containsTok(w.P, op.Tok) {
					n++
					pl = w.P
				}
			}
			if want == model.Deny {
				if n != 0 {
					add("C15.gate", how+" emitted-when-denied", "%s at severity %s on a logger at %s (debug mode %v) was emitted %d time(s) but the logger does not admit it", how, model.LevelName(sev), model.LevelName(L), debug, n)
				}
				return
			}
			if want != model.Admit {
				return
			}
			if n != 1 {
				add("C15.once", how, "%s at severity %s on a logger at %s (debug mode %v): emitted %d times on the underlying logger's destination, expected exactly once (writes during the call: %d)", how, model.LevelName(sev), model.LevelName(L), debug, n, len(o.Writes))
				return
			}
			if shape := classifyShape(pl); shape >= 0 && shape != format {
				add("C15.format", how, "%s record looks %s, the underlying logger is in %s format", how, fmtNames[shape], fmtNames[format])
			}
			text := stripSGR(pl)
			if wantLevelName != "" && format != fmtColor {
				if lv, ok := levelField(pl); ok && lv != wantLevelName {
					add("C15.severity", how+" want="+wantLevelName, "%s record carries level %q, expected %q", how, lv, wantLevelName)
				}
			}
			if wantMsg != "" && format != fmtColor && (format != fmtJSON || utf8.ValidString(wantMsg)) {
				// (bytes that are not UTF-8 have no exact JSON form: C04 promises exactness for valid UTF-8 only)
				if m := msgFieldRe.FindStringSubmatch(text); m != nil {
					if got, err := strconv.Unquote(m[1] + m[2]); err == nil && got != wantMsg {
						add("C15.message", how, "%s record has msg %q, expected %q", how, got, wantMsg)
					}
				}
			}
			if T != nil {
				inst := time.Unix(T.S, T.Ns).In(c16Zone(T.Zone))
				if tt, ok := timeText(pl); ok && tt != inst.Format(time.RFC3339Nano) {
					add("C15.time", how, "%s record prints time %q, the record's own time is %s", how, tt, inst.Format(time.RFC3339Nano))
				}
			}
			// attributes
			prefix := ""
			var wantPairs []kv
			var wantKeys []string
			if h != nil {
				prefix = strings.Join(h.prefix, ".")
				wantPairs = append(wantPairs, h.added...)
				wantKeys = append(wantKeys, h.addedKeys...)
			}
			p2, k2 := stdAttrPairs(args, prefix)
			wantPairs = append(wantPairs, p2...)
			wantKeys = append(wantKeys, k2...)
			got := map[int64]string{}
			for _, m := range c15ValueRe.FindAllStringSubmatch(text, -1) {
				var v int64
				fmt.Sscanf(m[2], "%d", &v)
				got[v] = m[1]
			}
			derived := "base"
			if h != nil && !h.base {
				derived = "derived"
			}
			for _, w := range wantPairs {
				k, ok := got[w.Val]
				wk := w.Key
				if format == fmtJSON {
					wk = leafKey(wk)
					k = leafKey(k)
				}
				if !ok {
					add("C15.attrs", how+" missing "+derived, "%s record lacks attribute %s=%d: %.300q", how, w.Key, w.Val, text)
					break
				} else if k != wk {
					add("C15.attrs", how+" key "+derived, "%s record prints value %d under key %q, expected %q", how, w.Val, k, wk)
					break
				}
			}
			for _, ta := range c15Times(args, prefix) {
				// the printed value, if it reads as an RFC 3339 time, must be the attribute's instant
				kk := ta.Key
				if format == fmtJSON {
					kk = leafKey(kk)
				}
				m := regexp.MustCompile(`(?:^|[ ,{"])` + regexp.QuoteMeta(kk) + `"?[=:]"?([0-9T:.+\-Z]+)`).FindStringSubmatch(text)
				if m == nil {
					continue
				}
				got, err := time.Parse(time.RFC3339Nano, m[1])
				if err != nil {
					continue // another rendering of times: its exactness is C04/C05's business
				}
				if want := time.Unix(0, ta.I); !got.Equal(want) {
					add("C15.attrs", how+" time-value "+derived, "%s record prints time attribute %s as %s, the attribute's instant is %s", how, ta.Key, m[1], want.In(c16Zone(ta.S)).Format(time.RFC3339Nano))
					break
				}
			}
			for _, k := range wantKeys {
				kk := k
				if format == fmtJSON {
					kk = leafKey(k)
				}
				if !strings.Contains(text, kk+"=") && !strings.Contains(text, `"`+kk+`":`) {
					add("C15.attrs", how+" missing "+derived, "%s record lacks attribute key %s: %.300q", how, k, text)
					break
				}
			}
		}

		switch op.Op {
		case "get_debug_mode":
			var ret struct {
				Debug bool `json:"debug"`
			}
			if retInto(o, &ret) {
				debug = ret.Debug
			}
		case "snap":
			if s, ok := snapOf(o.Snap)[1]; ok {
				L = s.Level
				switch {
				case s.JSON:
					format = fmtJSON
				case s.Color:
					format = fmtColor
				default:
					format = fmtLogfmt
				}
			}
		case "slog_handler":
			hs[op.R] = &c15Handler{base: true}
		case "handler_with_attrs":
			b := hs[op.L]
			if b == nil {
				continue
			}
			h := &c15Handler{prefix: append([]string{}, b.prefix...), added: append([]kv{}, b.added...), addedKeys: append([]string{}, b.addedKeys...)}
			p2, k2 := stdAttrPairs(op.Args, strings.Join(b.prefix, "."))
			h.added = append(h.added, p2...)
			h.addedKeys = append(h.addedKeys, k2...)
			hs[op.R] = h
		case "handler_with_group":
			b := hs[op.L]
			if b == nil {
				continue
			}
			h := &c15Handler{prefix: append(append([]string{}, b.prefix...), op.Name), added: append([]kv{}, b.added...), addedKeys: append([]string{}, b.addedKeys...)}
			hs[op.R] = h
		case "handler_enabled":
			h := hs[op.L]
			if h == nil {
				continue
			}
			var ret struct {
				Enabled bool `json:"enabled"`
			}
			if !retInto(o, &ret) {
				continue
			}
			want := admitted(c15StdSev[op.Lvl])
			if want == model.Admit && !ret.Enabled || want == model.Deny && ret.Enabled {
				d := "base"
				if !h.base {
					d = "derived"
				}
				add("C15.enabled", d, "%s handler Enabled(%s) = %v; the underlying logger is at %s (debug mode %v) and its gating says %v", d, c15StdName[op.Lvl], ret.Enabled, model.LevelName(L), debug, want == model.Admit)
			}
		case "handler_handle":
			h := hs[op.L]
			if h == nil {
				continue
			}
			if sev, std := c15StdSev[op.Lvl]; std {
				var ret struct {
					Enabled bool `json:"enabled"`
				}
				retInto(o, &ret)
				if !ret.Enabled {
					if len(o.Writes) > 0 {
						add("C15.gate", "handle-not-enabled", "record was written although Enabled said no")
					}
					continue // Enabled's own verdict is judged by the handler_enabled ops
				}
				how := "Handle"
				if !h.base {
					how = "derived.Handle"
				}
				checkRecord(how, sev, c15Want(run, op.Lvl), c15Msg(op), h, op.Args, op.T)
			} else if !worldTerminatingSlogLevels(run)[op.Lvl] {
				// a level that is neither standard nor one of the explicit Fatal/Panic constants: it must not become a terminating severity
				for _, w := range o.Writes {
					if lv, ok := levelField(w.P); ok && (lv == "fatal" || lv == "panic") {
						add("C15.terminating", "Handle", "Handle of a record with log/slog level %d is emitted at terminating severity %q", op.Lvl, lv)
					}
				}
			}
		case "slog_log":
			h := hs[op.L]
			if h == nil {
				continue
			}
			if sev, std := c15StdSev[op.Lvl]; std {
				how := "slog.Logger"
				if !h.base {
					how = "derived slog.Logger"
				}
				checkRecord(how, sev, c15Want(run, op.Lvl), c15Msg(op), h, op.Args, nil)
				// the record's own time: log/slog stamped it with the clock (the simulated one, see the world's
				// simTimed), so what is printed must be one of the clock reads of this call
				if len(o.Writes) == 1 && len(o.Clocks) > 0 {
					if tt, ok := timeText(o.Writes[0].P); ok {
						match := false
						var first string
						for _, c := range o.Clocks {
							var sec int64
							if _, err := fmt.Sscanf(c.S, "%d", &sec); err != nil {
								continue
							}
							f := time.Unix(sec, int64(c.N)).In(c16Zone(sc.World.Clock.Zone)).Format(time.RFC3339Nano)
							if first == "" {
								first = f
							}
							match = match || f == tt
						}
						if !match && first != "" {
							add("C15.time", how, "%s record prints time %q, the record was stamped at %s", how, tt, first)
						}
					}
				}
			}
		case "bridge_print":
			S := op.Lvl
			// what log.Logger hands to its writer: Print/Printf add a newline unless the text
			// ends with one, Println always adds one; the record is that buffer minus one newline.
			wantMsg := strings.TrimSuffix(c15Msg(op), "\n")
			if op.Kind == "println" {
				wantMsg = c15Msg(op)
			}
			checkRecord("bridge", S, worldLevelName(run, S), wantMsg, nil, nil, nil)
			if op.Kind == "write" && admitted(S) == model.Admit {
				var ret struct {
					N int `json:"n"`
				}
				if retInto(o, &ret) {
					full := len(c15Msg(op))
					if ret.N != full {
						add("C15.bridge.n", "write", "bridge Write of %d bytes reported %d", full, ret.N)
					}
				}
			}
		case "log":
			if op.Entry != "Log" {
				continue
			}
			if sev, std := c15StdSev[op.Lvl]; std {
				checkRecord("Entry.Log", sev, c15Want(run, op.Lvl), "e"+op.Tok, nil, nil, nil)
			} else if !worldTerminatingSlogLevels(run)[op.Lvl] {
				for _, w := range o.Writes {
					if lv, ok := levelField(w.P); ok && (lv == "fatal" || lv == "panic") {
						add("C15.terminating", "Entry.Log", "Entry.Log with log/slog level %d is emitted at terminating severity %q (it would exit or panic in a production process)", op.Lvl, lv)
					}
				}
			}
		}
	}
	if died {
		add("C15.terminated", "world", "the world process ended during %s (exit=%d): a call that must not terminate did; stderr=%.200q", lastStarted, run.ExitCode, lastLines(run.Stderr, 200))
	}
	return dedupe(out)
}

func (p *C15) Classify(sc *scen.Scenario, run *orch.Run) (string, bool) {
	var sb strings.Builder
	derived, bridge := false, false
	for i := range sc.Setup {
		op := &sc.Setup[i]
		fmt.Fprintf(&sb, "%s:%d:%d:%s:%v:%d;", op.Op, op.L, op.Lvl, op.Kind, op.S, len(op.Args))
		switch op.Op {
		case "handler_with_attrs", "handler_with_group":
			derived = true
		case "bridge_print":
			bridge = true
		}
	}
	wrote, silent := false, false
	ops := indexOps(run)
	for i := range sc.Setup {
		if !sc.Setup[i].Probe {
			continue
		}
		if o := ops[opKey("setup", 0, i+1)]; o != nil {
			if len(o.Writes) > 0 {
				wrote = true
			} else {
				silent = true
			}
		}
	}
	return fmt.Sprintf("%x", scen.HashString(sb.String())), (derived || bridge) && wrote && silent
}
