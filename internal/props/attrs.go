package props

import (
	"fmt"
	"regexp"
	"sort"
	"strings"

	"verif/internal/scen"
)

// mAttr is the reference model's view of one attribute.
type mAttr struct {
	Key     string
	Val     int64 // scalar value (unique per occurrence in generated workloads)
	IsGroup bool
	Items   []mAttr
}

// flattenArgs interprets a free-form argument list the way the documentation
// describes it: "key", value pairs; Attr, Attrs and []Attr taken as they are.
func flattenArgs(as []scen.Arg) []mAttr {
	var out []mAttr
	key := ""
	haveKey := false
	for i := range as {
		a := &as[i]
		if haveKey {
			out = append(out, mAttr{Key: key, Val: a.I})
			haveKey = false
			continue
		}
		switch a.K {
		case "key", "s":
			key, haveKey = a.S, true
		case "attr", "typed":
			v := int64(0)
			if len(a.Items) > 0 {
				v = a.Items[0].I
			}
			out = append(out, mAttr{Key: a.Key, Val: v})
		case "group", "egroup":
			out = append(out, mAttr{Key: a.Key, IsGroup: true, Items: flattenArgs(a.Items)})
		case "ggroup":
			out = append(out, mAttr{Key: a.Key, IsGroup: true, Items: flattenArgs(a.Items)})
		case "attrs", "attrslice", "newattrs":
			out = append(out, flattenArgs(a.Items)...)
		case "nilattr":
		}
	}
	return out
}

// mergeAttrs: last occurrence of a key wins; ascending key order; same inside groups.
func mergeAttrs(list []mAttr) []mAttr {
	last := map[string]int{}
	for i, a := range list {
		last[a.Key] = i
	}
	var out []mAttr
	for i, a := range list {
		if last[a.Key] != i {
			continue
		}
		if a.IsGroup {
			a.Items = mergeAttrs(a.Items)
		}
		out = append(out, a)
	}
	sort.SliceStable(out, func(i, j int) bool { return out[i].Key < out[j].Key })
	return out
}

type kv struct {
	Key string
	Val int64
}

// expectedPairs flattens a merged attribute list into the printed sequence.
// dotted: logfmt/colored print group members under dotted keys; JSON (as far as
// C07 looks at it) is compared on leaf keys.
func expectedPairs(list []mAttr, prefix string, dotted bool) []kv {
	var out []kv
	for _, a := range list {
		k := a.Key
		if dotted && prefix != "" {
			k = prefix + "." + a.Key
		}
		if a.IsGroup {
			out = append(out, expectedPairs(a.Items, k, dotted)...)
			continue
		}
		out = append(out, kv{k, a.Val})
	}
	return out
}

// valueRe finds the unique 7-digit values of generated workloads together with
// the key text that precedes them (if any).
var valueRe = regexp.MustCompile(`(?:"?([A-Za-z0-9_.\-]+)"?(?:=|:))?(9[0-9]{6})\b`)

// decodePairs extracts, in order of appearance, every generated value and the
// key printed in front of it ("" when the value stands bare).
func decodePairs(payload []byte) []kv {
	text := stripSGR(payload)
	var out []kv
	for _, m := range valueRe.FindAllStringSubmatch(text, -1) {
		var v int64
		fmt.Sscanf(m[2], "%d", &v)
		out = append(out, kv{m[1], v})
	}
	return out
}

func pairsString(ps []kv) string {
	var sb strings.Builder
	for i, p := range ps {
		if i > 0 {
			sb.WriteByte(' ')
		}
		fmt.Fprintf(&sb, "%s=%d", p.Key, p.Val)
	}
	return sb.String()
}

// leafKey strips a dotted prefix.
func leafKey(k string) string {
	if i := strings.LastIndexByte(k, '.'); i >= 0 {
		return k[i+1:]
	}
	return k
}

var safeKeyRe = regexp.MustCompile(`^[a-z][a-z0-9]*$`)

// attrsWellFormed checks the generator invariants the attribute oracles rely
// on: keys from the safe alphabet, every "key" followed by a value, and every
// scalar value a unique 7-digit number. seen collects the values.
func attrsWellFormed(as []scen.Arg, seen map[int64]bool) bool {
	for i := 0; i < len(as); i++ {
		a := &as[i]
		switch a.K {
		case "key":
			if !safeKeyRe.MatchString(a.S) || i+1 >= len(as) {
				return false
			}
			v := &as[i+1]
			if v.K != "i" || !uniqueVal(v.I, seen) {
				return false
			}
			i++
		case "attr", "typed":
			if !safeKeyRe.MatchString(a.Key) || len(a.Items) != 1 || a.Items[0].K != "i" || !uniqueVal(a.Items[0].I, seen) {
				return false
			}
		case "group", "egroup", "ggroup":
			if !safeKeyRe.MatchString(a.Key) || !attrsWellFormed(a.Items, seen) {
				return false
			}
		case "attrs", "attrslice", "newattrs":
			if !attrsWellFormed(a.Items, seen) {
				return false
			}
		default:
			return false
		}
	}
	return true
}

func uniqueVal(v int64, seen map[int64]bool) bool {
	if v < 9000001 || v > 9999999 || seen[v] {
		return false
	}
	seen[v] = true
	return true
}
