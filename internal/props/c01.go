package props

import (
	"fmt"
	"sort"
	"strings"

	"verif/internal/model"
	"verif/internal/orch"
	"verif/internal/scen"
)

// C01 — level gating: one admission rule, identical at every entry point.
type C01 struct{}

func (*C01) ID() string     { return "C01" }
func (*C01) Level() string  { return "exploration" }
func (*C01) Engine() string { return "HIST" }
func (*C01) Rule() string {
	return "seeded histories (<=30 ops: SetLevel/WithLevel/New(WithLevel)/package SetLevel, RegisterLevel with negative/12..40/>1000 values with and without treated-as, SetDebugMode(false)) over 1-6 loggers incl. the default logger, in production- and testing-mode worlds, followed by an exhaustive sweep of every logger x severity x entry point in the reached state; distinct = hash of (registered levels, debug mode, logger levels); non-trivial = history has a registration or a debug-mode transition and the sweep shows both outcomes"
}

func (*C01) Plan(tier string) orch.Plan {
	n := 2000
	if tier == "thorough" {
		n = 40000
	}
	return orch.Plan{Episodes: n, Batch: 1}
}

type c01Call struct {
	Logger int
	Sev    int
	Entry  string
}

// entry points able to carry a severity
func c01Entries(sev int, custom bool, isDefault bool) []string {
	var es []string
	if !custom {
		if n, ok := sevEntryName[sev]; ok {
			es = append(es, n, n+"Context")
			if isDefault {
				es = append(es, "pkg."+n, "pkg."+n+"Context")
			}
			if sev == model.Always {
				es = append(es, "Println", "PrintlnContext")
				if isDefault {
					es = append(es, "pkg.Println", "pkg.PrintlnContext")
				}
			}
		}
		switch sev {
		case model.Info:
			es = append(es, "Infof")
		case model.Warn:
			es = append(es, "Warnf")
		case model.Error:
			es = append(es, "Errorf")
		}
		if _, ok := stdLevelOf[sev]; ok {
			es = append(es, "Log")
		}
	}
	es = append(es, "LogAttrs", "Logit")
	return es
}

func (p *C01) Gen(seed uint64, i int, tier string) *scen.Scenario {
	r := scen.NewRng(scen.Mix(seed, scen.HashString("C01"), uint64(i)))
	sc := &scen.Scenario{Property: "C01", Engine: "HIST", Seed: scen.Mix(seed, 101, uint64(i)) >> 12}
	sc.World.Flags = []string{"LnoInterrupt"}
	sc.World.Isolated = true
	if r.Chance(1, 3) {
		sc.World.Mode = "testing"
	} else {
		sc.World.Mode = "production"
	}
	sc.World.Clock = scen.Clock{TickNs: 1, MaxStep: 3000}

	nextW := 1
	var loggers []int
	addWriters := func(l int) {
		sc.Setup = append(sc.Setup, opSetWriter(l, nextW, "plain"), opSetErrWriter(l, nextW+1, "plain"))
		nextW += 2
	}
	// default logger gets recording destinations too
	loggers = append(loggers, 0)
	addWriters(0)
	nextID := 1
	levels := []int{model.Panic, model.Fatal, model.Error, model.Warn, model.Info, model.Debug, model.Trace, model.Off, model.Always}
	pickLevel := func() int {
		if r.Chance(1, 12) {
			return scen.Pick(r, []int{model.OK, model.Success, model.Fail})
		}
		return scen.Pick(r, levels)
	}
	var customs []int
	pendingRestore := 0
	defID := 0
	nOps := r.Range(2, 30)
	n := 0
	blocks := 0
	type pair struct{ l, sev int }
	var asked []pair
	for k := 0; k < nOps; k++ {
		if k > 0 && blocks < 3 && r.Chance(1, 6) {
			// ask in the middle of the history, and ask the same (logger, severity) again later: an answer
			// given once must not outlive the state it was given in
			blocks++
			sc.Setup = append(sc.Setup, scen.Op{Op: "get_debug_mode"}, scen.Op{Op: "snap"})
			for q := r.Range(1, 3); q > 0; q-- {
				pr := pair{scen.Pick(r, loggers), scen.Pick(r, []int{model.Debug, model.Debug, model.Info, model.Warn, model.Error, model.Trace})}
				if len(customs) > 0 && r.Chance(1, 3) {
					pr.sev = scen.Pick(r, customs)
				}
				if len(asked) > 0 && r.Bool() {
					pr = scen.Pick(r, asked)
				}
				asked = append(asked, pr)
				custom := pr.sev < 0 || pr.sev >= model.MaxLevel
				sc.Setup = append(sc.Setup, scen.Op{Op: "enabled", L: pr.l, Lvl: pr.sev})
				es := c01Entries(pr.sev, custom, pr.l == defID)
				for e := r.Range(1, 2); e > 0 && len(es) > 0; e-- {
					n++
					op := scen.Op{Op: "log", L: pr.l, Entry: scen.Pick(r, es), Lvl: pr.sev, Msg: "m" + tok(n), Tok: tok(n)}
					if op.Entry == "Log" {
						op.Lvl = stdLevelOf[pr.sev]
						op.I = int64(pr.sev)
					}
					sc.Setup = append(sc.Setup, op)
				}
			}
			if r.Chance(1, 3) {
				// right after the answers: the process-wide debug mode flips
				if r.Chance(2, 3) {
					sc.Setup = append(sc.Setup, scen.Op{Op: "set", L: scen.Pick(r, loggers), Kind: "level", Lvl: model.Debug})
				} else {
					sc.Setup = append(sc.Setup, scen.Op{Op: "set_debug_mode", B: []bool{false}})
				}
			}
		}
		switch c := r.Intn(100); {
		case c < 18 && len(loggers) < 6: // new logger
			id := nextID
			nextID++
			switch r.Intn(3) {
			case 0:
				op := scen.Op{Op: "new_root", R: id, Name: fmt.Sprintf("r%d", id), Named: true}
				if r.Bool() {
					op.Opts = append(op.Opts, scen.Op{Kind: "level", Lvl: pickLevel()})
				}
				sc.Setup = append(sc.Setup, op)
			case 1:
				sc.Setup = append(sc.Setup, scen.Op{Op: "new_child", L: scen.Pick(r, loggers), R: id, Name: fmt.Sprintf("c%d", id), Named: true})
			default:
				sc.Setup = append(sc.Setup, scen.Op{Op: "with", L: scen.Pick(r, loggers), R: id, Kind: "level", Lvl: pickLevel()})
			}
			loggers = append(loggers, id)
			addWriters(id)
		case c < 55:
			sc.Setup = append(sc.Setup, scen.Op{Op: "set", L: scen.Pick(r, loggers), Kind: "level", Lvl: pickLevel()})
		case c < 56:
			sc.Setup = append(sc.Setup, scen.Op{Op: "pkg_set_level", Lvl: pickLevel()})
		case c < 58:
			// SaveLevelAndSet ... and later its restore function
			sc.Setup = append(sc.Setup, scen.Op{Op: "pkg_save_level", Lvl: pickLevel()})
			pendingRestore++
		case c < 60:
			if pendingRestore > 0 {
				sc.Setup = append(sc.Setup, scen.Op{Op: "pkg_restore_level"})
				pendingRestore--
			} else if len(loggers) > 1 {
				// another logger becomes the default: the package-level functions now speak through it
				defID = scen.Pick(r, loggers)
				sc.Setup = append(sc.Setup, scen.Op{Op: "set_default", L: defID})
			}
		case c < 62:
			sc.Setup = append(sc.Setup, scen.Op{Op: "pkg_reset_level"})
		case c < 85 && len(customs) < 5:
			var v int
			switch r.Intn(4) {
			case 0:
				v = -r.Range(1, 50)
			case 1:
				v = r.Range(12, 40)
			case 2:
				v = r.Range(1001, 5000)
			default:
				v = r.Range(12, 20)
			}
			dup := false
			for _, c := range customs {
				if c == v {
					dup = true
				}
			}
			if dup {
				continue
			}
			op := scen.Op{Op: "register_level", Lvl: v, Name: fmt.Sprintf("lv%d", len(customs))}
			if r.Chance(2, 3) {
				op.Opts = append(op.Opts, scen.Op{Kind: "treat_as", Lvl: scen.Pick(r, []int{model.Panic, model.Fatal, model.Error, model.Warn, model.Info, model.Debug, model.Trace})})
			}
			if r.Chance(1, 3) {
				op.Opts = append(op.Opts, scen.Op{Kind: "errdev", B: []bool{true}})
			}
			sc.Setup = append(sc.Setup, op)
			customs = append(customs, v)
		case c < 92:
			sc.Setup = append(sc.Setup, scen.Op{Op: "set_debug_mode", B: []bool{false}})
		default:
			sc.Setup = append(sc.Setup, scen.Op{Op: "set", L: scen.Pick(r, loggers), Kind: "level", Lvl: model.Debug})
		}
	}
	// the sweep in the reached state
	sc.Setup = append(sc.Setup, scen.Op{Op: "get_debug_mode"}, scen.Op{Op: "snap"})
	sevs := []int{model.Panic, model.Fatal, model.Error, model.Warn, model.Info, model.Debug, model.Trace, model.Off, model.Always, model.OK, model.Success, model.Fail}
	for _, l := range loggers {
		all := append(append([]int{}, sevs...), customs...)
		for _, sev := range all {
			custom := sev < 0 || sev >= model.MaxLevel
			sc.Setup = append(sc.Setup, scen.Op{Op: "enabled", L: l, Lvl: sev})
			if sev == model.Off {
				// Off is carried only by the level-parameter entry points
				custom = true
			}
			for _, e := range c01Entries(sev, custom, l == defID) {
				n++
				op := scen.Op{Op: "log", L: l, Entry: e, Lvl: sev, Msg: "m" + tok(n), Tok: tok(n)}
				if e == "Log" {
					op.Lvl = stdLevelOf[sev]
					op.I = int64(sev)
				}
				if r.Chance(1, 4) {
					op.Args = []scen.Arg{{K: "key", S: "k"}, {K: "i", I: int64(n)}}
				}
				sc.Setup = append(sc.Setup, op)
			}
		}
		// Verbose emits nothing in a default build
		n++
		sc.Setup = append(sc.Setup, scen.Op{Op: "log", L: l, Entry: "Verbose", Lvl: -1000, Msg: "v" + tok(n), Tok: tok(n)})
		n++
		sc.Setup = append(sc.Setup, scen.Op{Op: "log", L: l, Entry: "VerboseContext", Lvl: -1000, Msg: "v" + tok(n), Tok: tok(n)})
		if l == defID {
			n++
			sc.Setup = append(sc.Setup, scen.Op{Op: "log", L: l, Entry: "pkg.Verbose", Lvl: -1000, Msg: "v" + tok(n), Tok: tok(n)})
		}
	}
	return sc
}

func sevClass(reg *model.Registry, sev int) string {
	switch {
	case sev == -1000:
		return "verbose"
	case sev == model.Off:
		return "off"
	case sev == model.Always:
		return "always"
	case sev == model.Debug:
		return "debug"
	case model.IsOrdinal(sev):
		return "ordinal"
	case sev == model.OK || sev == model.Success || sev == model.Fail:
		return "okfam"
	}
	if c, ok := reg.Customs[sev]; ok {
		if c.HasTreat {
			return "custom-treated"
		}
		return "custom-raw"
	}
	return "unregistered"
}

// registryFromHistory replays the successful registrations of a scenario.
func registryFromHistory(sc *scen.Scenario, ops map[string]*opObs, upto int) *model.Registry {
	reg := model.NewRegistry()
	for i := range sc.Setup {
		if upto >= 0 && i >= upto {
			break
		}
		op := &sc.Setup[i]
		if op.Op != "register_level" {
			continue
		}
		var ret struct {
			OK bool `json:"ok"`
		}
		if !retInto(ops[opKey("setup", 0, i+1)], &ret) || !ret.OK {
			continue
		}
		c := &model.Custom{Value: op.Lvl, Title: op.Name}
		for _, o := range op.Opts {
			switch o.Kind {
			case "treat_as":
				// the implementation's own rule: a treated-as value >= MaxLevel means "none"
				c.HasTreat, c.TreatAs = true, o.Lvl
			case "errdev":
				c.ErrDev = len(o.B) == 0 || o.B[len(o.B)-1]
				if len(o.B) == 0 {
					c.ErrDev = false // RegWithPrintToErrorDevice() without argument sets nothing
				}
			case "tags":
				c.Tags = o.S
			}
		}
		reg.Customs[c.Value] = c
	}
	return reg
}

// WellFormed: the sweep is judged against the observed debug mode and logger levels, so the
// observation ops (get_debug_mode, snap) must precede the first sweep op and nothing that
// changes the state may follow them.
func (p *C01) WellFormed(sc *scen.Scenario) bool {
	// 0 = state unobserved, 1 = debug mode read, 2 = debug mode and logger levels read
	st := 0
	for i := range sc.Setup {
		switch op := &sc.Setup[i]; op.Op {
		case "get_debug_mode":
			st = 1
		case "snap":
			if st != 1 {
				return false
			}
			st = 2
		case "log", "enabled":
			if st != 2 {
				return false
			}
		default:
			st = 0 // a state-changing op: the next question needs a fresh observation
		}
	}
	return true
}

func (p *C01) Check(sc *scen.Scenario, run *orch.Run, env *orch.Env) []orch.Violation {
	var out []orch.Violation
	if worldDied(run) {
		out = append(out, orch.Violation{Rule: "C01.terminated", Witness: "world", Detail: fmt.Sprintf("world ended early exit=%d stderr=%.200q", run.ExitCode, run.Stderr)})
		return out
	}
	ops := indexOps(run)
	reg := registryFromHistory(sc, ops, -1)
	debug := false
	var snap map[int]snapLogger
	block := 0
	type cell struct {
		wrote   bool
		entry   string
		enabled *bool
		level   int
	}
	groups := map[string][]cell{} // observation block/logger/sev -> observations
	for i := range sc.Setup {
		op := &sc.Setup[i]
		o := ops[opKey("setup", 0, i+1)]
		if o == nil {
			continue
		}
		switch op.Op {
		case "get_debug_mode":
			var ret struct {
				Debug bool `json:"debug"`
			}
			if retInto(o, &ret) {
				debug = ret.Debug
			}
		case "snap":
			snap = snapOf(o.Snap)
			reg = registryFromHistory(sc, ops, i)
			block++
		default:
			snap = nil // the state may have changed: questions need a fresh observation
		case "enabled", "log":
			if snap == nil {
				continue
			}
			ls, ok := snap[op.L]
			if !ok {
				continue
			}
			sev := op.Lvl
			if op.Entry == "Log" {
				sev = int(op.I)
			}
			gk := fmt.Sprintf("%04d/%d/%d", block, op.L, sev)
			want := reg.Admitted(ls.Level, sev, debug)
			if sev == -1000 {
				want = model.Deny
			}
			class := sevClass(reg, sev)
			if op.Op == "enabled" {
				var ret struct {
					Enabled    bool `json:"enabled"`
					EnabledCtx bool `json:"enabled_ctx"`
				}
				if !retInto(o, &ret) {
					continue
				}
				for _, pair := range []struct {
					name string
					got  bool
				}{{"Enabled", ret.Enabled}, {"EnabledContext", ret.EnabledCtx}} {
					got := pair.got
					groups[gk] = append(groups[gk], cell{wrote: got, entry: pair.name, level: ls.Level})
					if want == model.Admit && !got || want == model.Deny && got {
						out = append(out, orch.Violation{Rule: "C01.enabled", Witness: fmt.Sprintf("entry=%s class=%s", pair.name, class),
							Detail: fmt.Sprintf("%s(%s) on a logger at level %s (debug mode %v) returned %v, the admission rule says %v", pair.name, model.LevelName(sev), model.LevelName(ls.Level), debug, got, want == model.Admit)})
					}
				}
				continue
			}
			if o.Panic != nil {
				out = append(out, orch.Violation{Rule: "C01.panic", Witness: "entry=" + op.Entry, Detail: fmt.Sprintf("%s at %s panicked: %s", op.Entry, model.LevelName(sev), o.Panic.S)})
				continue
			}
			wrote := false
			for _, w := range o.Writes {
				if containsTok(w.P, op.Tok) {
					wrote = true
				}
			}
			if len(o.Writes) > 0 && !wrote {
				wrote = true // some output was caused by the call
			}
			groups[gk] = append(groups[gk], cell{wrote: wrote, entry: op.Entry, level: ls.Level})
			switch {
			case want == model.Admit && !wrote:
				out = append(out, orch.Violation{Rule: "C01.missing", Witness: fmt.Sprintf("entry=%s class=%s", op.Entry, class),
					Detail: fmt.Sprintf("%s with severity %s on a logger at level %s (debug mode %v) wrote nothing but must be admitted", op.Entry, model.LevelName(sev), model.LevelName(ls.Level), debug)})
			case want == model.Deny && wrote:
				out = append(out, orch.Violation{Rule: "C01.extra", Witness: fmt.Sprintf("entry=%s class=%s", op.Entry, class),
					Detail: fmt.Sprintf("%s with severity %s on a logger at level %s (debug mode %v) produced output but must not be admitted", op.Entry, model.LevelName(sev), model.LevelName(ls.Level), debug)})
			}
		}
	}
	// the decision is the same for every public way of issuing that severity
	gks := make([]string, 0, len(groups))
	for k := range groups {
		gks = append(gks, k)
	}
	sort.Strings(gks)
	for _, gk := range gks {
		cells := groups[gk]
		yes, no := []string{}, []string{}
		for _, c := range cells {
			if c.wrote {
				yes = append(yes, c.entry)
			} else {
				no = append(no, c.entry)
			}
		}
		if len(yes) > 0 && len(no) > 0 {
			minority := yes
			if len(no) < len(yes) {
				minority = no
			}
			var b, l, sev int
			fmt.Sscanf(gk, "%d/%d/%d", &b, &l, &sev)
			for _, e := range minority {
				out = append(out, orch.Violation{Rule: "C01.inconsistent", Witness: fmt.Sprintf("entry=%s class=%s", e, sevClass(reg, sev)),
					Detail: fmt.Sprintf("severity %s on logger %d (level %s): admitted by [%s] but not by [%s]", model.LevelName(sev), l, model.LevelName(cells[0].level), strings.Join(yes, ","), strings.Join(no, ","))})
			}
		}
	}
	// monotonicity for the classes the statement leaves open is covered by consistency + Off/Always rules
	return dedupe(out)
}

func dedupe(vs []orch.Violation) []orch.Violation {
	seen := map[string]bool{}
	var out []orch.Violation
	for _, v := range vs {
		if !seen[v.Key()] {
			seen[v.Key()] = true
			out = append(out, v)
		}
	}
	return out
}

func (p *C01) Classify(sc *scen.Scenario, run *orch.Run) (string, bool) {
	if worldDied(run) {
		return "", false
	}
	ops := indexOps(run)
	reg := registryFromHistory(sc, ops, -1)
	var sb strings.Builder
	hasReg := len(reg.Customs) > 0
	dbgTransition := false
	for _, c := range reg.Sorted() {
		fmt.Fprintf(&sb, "c%d:%v:%d:%v;", c.Value, c.HasTreat, c.TreatAs, c.ErrDev)
	}
	wrote, silent := false, false
	for i := range sc.Setup {
		op := &sc.Setup[i]
		o := ops[opKey("setup", 0, i+1)]
		if o == nil {
			continue
		}
		switch op.Op {
		case "set_debug_mode":
			dbgTransition = true
		case "set", "with", "pkg_set_level":
			if op.Lvl == model.Debug && (op.Kind == "level" || op.Op == "pkg_set_level") {
				dbgTransition = true
			}
		case "get_debug_mode":
			fmt.Fprintf(&sb, "dbg=%s;", string(o.Rets[0].V))
		case "snap":
			for _, id := range sortedIDs(snapOf(o.Snap)) {
				fmt.Fprintf(&sb, "L%d=%d;", id, snapOf(o.Snap)[id].Level)
			}
		case "log":
			if len(o.Writes) > 0 {
				wrote = true
			} else {
				silent = true
			}
		}
	}
	sb.WriteString(sc.World.Mode)
	return fmt.Sprintf("%x", scen.HashString(sb.String())), (hasReg || dbgTransition) && wrote && silent
}

func sortedIDs(m map[int]snapLogger) []int {
	ids := make([]int, 0, len(m))
	for id := range m {
		ids = append(ids, id)
	}
	sort.Ints(ids)
	return ids
}
