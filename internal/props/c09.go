package props

import (
	"bytes"
	"fmt"
	"regexp"
	"strconv"
	"strings"
	"time"

	"verif/internal/model"
	"verif/internal/orch"
	"verif/internal/scen"
)

// C09 — history independence: a record's bytes depend only on that call.
type C09 struct{}

func (*C09) ID() string     { return "C09" }
func (*C09) Level() string  { return "exploration" }
func (*C09) Engine() string { return "CONC" }
func (*C09) Rule() string {
	return "a probe call (any format, any severity incl. an unregistered custom level, groups, errors, multi-line message, caller info from one fixed call site, explicit timestamp through WriteThru) is issued in the pristine world process and again after seeded histories of 0-200 other calls on other loggers, formats, severities and 1-4 caller tasks; the pool tape hands the probe a fresh formatting context, the most recently recycled one or an older one, and evicts at random; no configuration change in between; byte equality of the probe's payloads is demanded; every sixth episode is a twin episode: two loggers with the same name are made and configured by the same calls, one prints records between the configuration calls and the other stays silent, then both get the same probe and the bytes must be equal; distinct = hash of (probe, history); non-trivial = the probe was formatted in a recycled context after a non-empty history; a third of the twin episodes also give each logger's caller a group value (twin groups changed by the same Add/SetValue calls, only one of them printed in between) which the probe carries"
}

func (*C09) Plan(tier string) orch.Plan {
	n := 4000
	if tier == "thorough" {
		n = 300000
	}
	return orch.Plan{Episodes: n, Batch: 1}
}

func (p *C09) Gen(seed uint64, i int, tier string) *scen.Scenario {
	if i%6 == 5 {
		return c09Twin(seed, i)
	}
	r := scen.NewRng(scen.Mix(seed, scen.HashString("C09"), uint64(i)))
	sc := &scen.Scenario{Property: "C09", Engine: "CONC", Seed: scen.Mix(seed, 109, uint64(i)) >> 12}
	// cold episodes: the probe is not printed before the history, so whatever the library fills lazily at first
	// sight (and then keeps for the life of the process) is filled by the history; the pristine bytes come from a
	// second, fresh world that is given the same set-up and the probe alone (see Check)
	cold := i%6 == 4
	if cold {
		sc.Note = "cold"
	}
	sc.World.Isolated = true
	sc.World.Mode = scen.Pick(r, []string{"production", "testing"})
	sc.World.Flags = []string{"LnoInterrupt"}
	if r.Chance(1, 3) {
		sc.World.Flags = append(sc.World.Flags, "LattrsR")
	}
	if r.Chance(1, 3) {
		sc.World.NoFlags = []string{"Lcaller"}
	}
	sc.World.Clock = scen.Clock{TickNs: 1, MinStep: 40, MaxStep: 400}
	sc.Sched = scen.SchedCfg{StayPermille: r.Range(500, 980)}
	formatOpt := func() []scen.Op {
		switch r.Intn(3) {
		case 0:
			return []scen.Op{{Kind: "json", B: []bool{true}}}
		case 1:
			return []scen.Op{{Kind: "color", B: []bool{false}}}
		}
		return []scen.Op{{Kind: "color", B: []bool{true}}}
	}
	// two custom severities, registered (before anything is printed) with a foreground colour only, with
	// both colours, without colours, or not at all; 12 and -7 are never registered
	for _, lv := range []int{33, 47} {
		op := scen.Op{Op: "register_level", Lvl: lv, Name: fmt.Sprintf("custom%d", lv)}
		switch r.Intn(4) {
		case 0:
			continue
		case 1:
			op.Opts = []scen.Op{{Kind: "color", I: int64(r.Range(30, 37))}}
		case 2:
			op.Opts = []scen.Op{{Kind: "color", I: int64(r.Range(30, 37)), J: int64(scen.Pick(r, []int{5, 7, 41, 44}))}}
		}
		sc.Setup = append(sc.Setup, op)
	}
	nL := r.Range(1, 5)
	for id := 1; id <= nL; id++ {
		op := scen.Op{Op: "new_root", R: id, Name: fmt.Sprintf("l%d", id), Named: true}
		if id > 1 && r.Bool() {
			op = scen.Op{Op: "new_child", L: r.Range(1, id-1), R: id, Name: fmt.Sprintf("l%d", id), Named: true}
		}
		op.Opts = append(op.Opts, scen.Op{Kind: "writer", W: id}, scen.Op{Kind: "errwriter", W: id}, scen.Op{Kind: "level", Lvl: model.Always})
		op.Opts = append(op.Opts, formatOpt()...)
		if r.Bool() {
			op.Opts = append(op.Opts, scen.Op{Kind: "args", Args: []scen.Arg{{K: "key", S: fmt.Sprintf("own%d", id)}, {K: "i", I: int64(id)}}})
		}
		sc.Setup = append(sc.Setup, op)
	}
	adv := &c02Gen{r: r}
	if r.Chance(1, 3) {
		// values that log from inside their String method, on a logger of their own
		adv.relog = c02NestedLogger
		sc.Setup = append(sc.Setup, scen.Op{Op: "new_root", R: c02NestedLogger, Name: "nested", Named: true, Opts: append([]scen.Op{{Kind: "writer", W: c02NestedWriter}, {Kind: "errwriter", W: c02NestedWriter}, {Kind: "level", Lvl: model.Always}}, formatOpt()...)})
	}
	vals := func(n int) []scen.Arg {
		if r.Chance(1, 3) {
			// any attribute the API accepts: every value kind, reserved key names ("time", "level", ...), malformed lists
			var out []scen.Arg
			for _, a := range adv.list(n, 1) {
				out = append(out, a)
			}
			if r.Chance(1, 3) {
				out = append(out, scen.Arg{K: "attr", Key: scen.Pick(r, []string{"time", "level", "msg", "caller", "zzz"}), Items: []scen.Arg{{K: scen.Pick(r, []string{"time", "s", "i", "dur"}), I: int64(r.Intn(2000000000)), S: "x"}}})
			}
			return out
		}
		var as []scen.Arg
		for k := 0; k < n; k++ {
			key := fmt.Sprintf("k%d", r.Intn(30))
			switch r.Intn(8) {
			case 0:
				as = append(as, scen.Arg{K: "attr", Key: key, Items: []scen.Arg{{K: scen.Pick(r, []string{"err", "stackerr"}), S: "boom " + key}}})
			case 1:
				as = append(as, scen.Arg{K: "ggroup", Key: "g" + key, Items: []scen.Arg{
					{K: "attr", Key: "x", Items: []scen.Arg{{K: "i", I: int64(r.Intn(100))}}}, {K: "attr", Key: "y", Items: []scen.Arg{{K: "s", S: "v"}}}}})
			case 2:
				as = append(as, scen.Arg{K: "attr", Key: key, Items: []scen.Arg{{K: "s", S: "text " + key}}})
			case 3:
				as = append(as, scen.Arg{K: "attr", Key: key, Items: []scen.Arg{{K: "dur", I: int64(r.Intn(1e9))}}})
			case 4:
				as = append(as, scen.Arg{K: "attr", Key: key, Items: []scen.Arg{{K: "b", B: r.Bool()}}})
			default:
				as = append(as, scen.Arg{K: "attr", Key: key, Items: []scen.Arg{{K: "i", I: int64(r.Intn(100000))}}})
			}
		}
		return as
	}
	// the probe
	probe := scen.Op{Op: "write_thru", L: r.Range(1, nL), Kind: "pc", Probe: true,
		Lvl:  scen.Pick(r, []int{model.Error, model.Warn, model.Info, model.Debug, model.Trace, model.Always, model.OK, model.Fail, 33, 47, -7, 12}),
		T:    &scen.TimeSpec{S: 1600000000 + int64(r.Intn(100000000)), Ns: int64(r.Intn(1e9)), Zone: scen.Pick(r, []string{"UTC", "+02:00"})},
		Msg:  scen.Pick(r, []string{"probe message", "probe first line\nsecond line\nthird", "p", "probe with trailing newline\n"}),
		Args: vals(r.Intn(6)),
	}
	probe.Args = noAddresses(probe.Args) // values that print their heap address are new objects at every evaluation of the op
	var kin []string                     // text for the history that is related to the probe's text without being equal to it
	if cold {
		var own string
		own, kin = c09RuneKin(r)
		switch r.Intn(3) {
		case 0:
			probe.Msg += " " + own
		case 1:
			probe.Args = append(probe.Args, scen.Arg{K: "attr", Key: "ru", Items: []scen.Arg{{K: "s", S: "v " + own}}})
		default:
			probe.Msg = own + probe.Msg
			probe.Args = append(probe.Args, scen.Arg{K: "attr", Key: "ru" + own, Items: []scen.Arg{{K: "s", S: own}}})
		}
	} else {
		sc.Setup = append(sc.Setup, probe)
	}
	// history on 1-4 tasks
	G := scen.Pick(r, []int{1, 1, 2, 3, 4})
	total := scen.Pick(r, []int{0, 1, 2, 5, 20, 60, 200})
	if cold && total == 0 {
		total = scen.Pick(r, []int{1, 3, 9})
	}
	sevs := []int{model.Error, model.Warn, model.Info, model.Debug, model.Trace, model.Always, model.OK, model.Success, model.Fail}
	tk := 0
	for t := 1; t <= G; t++ {
		task := scen.Task{ID: t}
		for k := 0; k < total/G+1 && total > 0; k++ {
			tk++
			sev := scen.Pick(r, sevs)
			name := sevEntryName[sev]
			op := scen.Op{Op: "log", L: r.Range(1, nL), Entry: scen.Pick(r, []string{name, name + "Context", "LogAttrs"}), Lvl: sev, Msg: "h" + tok(tk), Tok: tok(tk), Args: vals(r.Intn(5))}
			if r.Chance(1, 8) {
				op.Lvl = scen.Pick(r, []int{33, 47, 12})
				op.Entry = "LogAttrs"
			}
			if r.Chance(1, 6) {
				op.Msg = "h" + tok(tk) + "\nmore\nlines"
			}
			if r.Chance(1, 4) {
				// another record from the probe's own call site (the commonest history of all: the same
				// statement logging again and again), with its own content
				op = scen.Op{Op: "write_thru", L: op.L, Kind: "pc", Lvl: op.Lvl, Msg: op.Msg, Tok: op.Tok, Args: op.Args, T: c09Near(r, probe.T)}
			}
			if len(kin) > 0 && (k == 0 || r.Chance(1, 3)) {
				if r.Bool() {
					op.Msg += " " + scen.Pick(r, kin)
				} else {
					op.Args = append(op.Args, scen.Arg{K: "attr", Key: scen.Pick(r, []string{"ru", "hx", "ru" + scen.Pick(r, kin)}), Items: []scen.Arg{{K: "s", S: scen.Pick(r, kin)}}})
				}
			}
			for q := range op.Args {
				if r.Chance(1, 3) {
					op.Args[q].Y = true
				}
			}
			task.Ops = append(task.Ops, op)
		}
		if len(task.Ops) > 0 {
			sc.Tasks = append(sc.Tasks, task)
		}
	}
	// the same probe again, several times (each gets whatever context the pool hands out)
	for k := r.Range(1, 3); k > 0; k-- {
		if r.Chance(1, 3) {
			// the record formatted right before the probe: the probe's own instant seen from another zone,
			// the same second, or a neighbour - on the probe's logger or another one
			tk++
			sc.Tail = append(sc.Tail, scen.Op{Op: "write_thru", L: scen.Pick(r, []int{probe.L, r.Range(1, nL)}), Kind: "pc", Lvl: scen.Pick(r, sevs), Msg: "n" + tok(tk), Tok: tok(tk), T: c09Near(r, probe.T)})
		}
		if r.Chance(1, 4) {
			// an excursion: process-wide flags (or a path mapping that hits the calling file) are changed, records
			// are printed - also from the probe's own call site -, and the change is undone before the probe: the
			// probe is issued under the configuration of the pristine one again
			var open, close scen.Op
			if r.Chance(1, 4) {
				open = scen.Op{Op: "add_path", Name: "$SRCDIR/interp.go", Msg: scen.Pick(r, []string{"~probe", "elsewhere/x.go"})}
				close = scen.Op{Op: "remove_path", Name: "$SRCDIR/interp.go"}
			} else {
				var mods []string
				for _, f := range []string{"Lprivacypath", "Lprivacypathregexp", "Lcallerpackagename", "LlocalTime", "Ldate", "Lmicroseconds", "Lcaller", "Llineno", "LattrsR", "Lattrs"} {
					switch r.Intn(5) {
					case 0:
						mods = append(mods, f)
					case 1:
						mods = append(mods, "-"+f)
					}
				}
				open = scen.Op{Op: "save_flags", S: mods}
				close = scen.Op{Op: "restore_flags"}
			}
			sc.Tail = append(sc.Tail, open)
			for n := r.Range(1, 3); n > 0; n-- {
				tk++
				sev := scen.Pick(r, sevs)
				if r.Bool() {
					sc.Tail = append(sc.Tail, scen.Op{Op: "write_thru", L: scen.Pick(r, []int{probe.L, r.Range(1, nL)}), Kind: "pc", Lvl: sev, Msg: "x" + tok(tk), Tok: tok(tk), T: c09Near(r, probe.T), Args: vals(r.Intn(3))})
				} else {
					sc.Tail = append(sc.Tail, scen.Op{Op: "log", L: r.Range(1, nL), Entry: "LogAttrs", Lvl: sev, Msg: "x" + tok(tk), Tok: tok(tk), Args: vals(r.Intn(3))})
				}
			}
			sc.Tail = append(sc.Tail, close)
		}
		sc.Tail = append(sc.Tail, probe)
		if r.Bool() && nL > 0 {
			tk++
			sev := scen.Pick(r, sevs)
			sc.Tail = append(sc.Tail, scen.Op{Op: "log", L: r.Range(1, nL), Entry: "LogAttrs", Lvl: sev, Msg: "t" + tok(tk), Tok: tok(tk), Args: vals(r.Intn(4))})
		}
	}
	return sc
}

// c09Twin: two loggers get the same name, the same options and the same sequence of configuration
// calls; one of them prints records between those calls, the other prints nothing. Then both are given
// the same probe: by C09 the bytes are a function of the call and the logger's configuration, so they
// must be equal (anything a logger keeps from a record it printed under an earlier configuration shows).
func c09Twin(seed uint64, i int) *scen.Scenario {
	r := scen.NewRng(scen.Mix(seed, scen.HashString("C09twin"), uint64(i)))
	sc := &scen.Scenario{Property: "C09", Engine: "HIST", Seed: scen.Mix(seed, 1090, uint64(i)) >> 12, Note: "twin"}
	sc.World.Isolated = true
	sc.World.Mode = scen.Pick(r, []string{"production", "testing"})
	sc.World.Flags = []string{"LnoInterrupt"}
	if r.Bool() {
		sc.World.NoFlags = []string{"Lcaller"}
	}
	sc.World.Clock = scen.Clock{TickNs: 1, MinStep: 40, MaxStep: 400}
	cfg := func() scen.Op {
		switch r.Intn(8) {
		case 0, 1:
			return scen.Op{Op: "set", Kind: "json", B: []bool{r.Bool()}}
		case 2, 3:
			return scen.Op{Op: "set", Kind: "color", B: []bool{r.Bool()}}
		case 4:
			return scen.Op{Op: "set", Kind: "utc", B: []bool{r.Bool()}}
		case 5:
			return scen.Op{Op: "set", Kind: "timefmt", S: []string{scen.Pick(r, []string{time.RFC3339Nano, time.Kitchen, "2006-01-02 15:04:05.000 Z07:00"})}}
		case 6:
			return scen.Op{Op: "set", Kind: "level", Lvl: scen.Pick(r, []int{model.Always, model.Trace})}
		}
		return scen.Op{Op: "set", Kind: "args", Args: []scen.Arg{{K: "key", S: fmt.Sprintf("own%d", r.Intn(5))}, {K: "i", I: int64(r.Intn(1000))}}}
	}
	var opts []scen.Op
	for k := r.Intn(3); k > 0; k-- {
		o := cfg()
		o.Op = ""
		opts = append(opts, o)
	}
	for _, id := range []int{1, 2} {
		op := scen.Op{Op: "new_root", R: id, Name: "tw", Named: true, Opts: []scen.Op{{Kind: "writer", W: id}, {Kind: "errwriter", W: id}, {Kind: "level", Lvl: model.Always}}}
		op.Opts = append(op.Opts, opts...)
		sc.Setup = append(sc.Setup, op)
	}
	sevs := []int{model.Error, model.Warn, model.Info, model.Debug, model.Trace, model.Always, model.OK, model.Success, model.Fail}
	tk := 0
	// one episode in three: each logger's caller also owns a group value (twin groups, made and changed by the same
	// calls: ref 901 goes with logger 1, ref 902 with logger 2). The records of logger 1 carry its group, between
	// them both groups get the same new members; the probe carries the group. A record is a function of what the
	// group holds when the call is made, not of whether (or in which state) the group was printed before
	grouped := r.Chance(1, 3)
	var members []scen.Arg
	nm := 0
	member := func() scen.Arg {
		nm++
		return scen.Arg{K: "attr", Key: fmt.Sprintf("%c%d", 'z'-rune(nm%5), nm), Items: []scen.Arg{{K: "i", I: int64(7000 + nm)}}}
	}
	groupArg := func(id int) scen.Arg {
		return scen.Arg{K: "ggroup", Key: "tg", Ref: 900 + id, Items: append([]scen.Arg{}, members...)}
	}
	if grouped {
		for k := r.Range(0, 3); k > 0; k-- {
			members = append(members, member())
		}
	}
	records := func(n int) {
		for ; n > 0; n-- {
			tk++
			sev := scen.Pick(r, sevs)
			op := scen.Op{Op: "log", L: 1, Entry: scen.Pick(r, []string{sevEntryName[sev], "LogAttrs"}), Lvl: sev, Msg: "h" + tok(tk), Tok: tok(tk)}
			for q := r.Intn(3); q > 0; q-- {
				op.Args = append(op.Args, scen.Arg{K: "attr", Key: fmt.Sprintf("k%d", r.Intn(9)), Items: []scen.Arg{{K: "i", I: int64(r.Intn(1000))}}})
			}
			if grouped && r.Chance(3, 4) {
				op.Args = append(op.Args, groupArg(1))
			}
			sc.Setup = append(sc.Setup, op)
		}
	}
	mutate := func() {
		kind := scen.Pick(r, []string{"add", "setattr", "setattr", "setattrs"})
		var more []scen.Arg
		for k := r.Range(1, 2); k > 0; k-- {
			more = append(more, member())
		}
		for _, id := range []int{1, 2} {
			sc.Setup = append(sc.Setup, scen.Op{Op: "mutate_group", L: id, Kind: kind, Args: append([]scen.Arg{groupArg(id)}, more...)})
		}
		if kind == "setattrs" {
			members = append([]scen.Arg{}, more...)
		} else {
			members = append(members, more...)
		}
	}
	records(r.Range(1, 3))
	for k := r.Range(1, 4); k > 0; k-- {
		c := cfg()
		for _, id := range []int{1, 2} {
			c2 := c
			c2.L = id
			sc.Setup = append(sc.Setup, c2)
		}
		records(r.Intn(3))
		if grouped && r.Chance(2, 3) {
			mutate()
			records(r.Intn(3))
		}
	}
	probe := scen.Op{Op: "write_thru", Kind: "pc", Probe: true,
		Lvl: scen.Pick(r, []int{model.Error, model.Warn, model.Info, model.Debug, model.Trace, model.Always, model.OK, model.Fail}),
		T:   &scen.TimeSpec{S: 1600000000 + int64(r.Intn(100000000)), Ns: int64(r.Intn(1e9)), Zone: scen.Pick(r, []string{"UTC", "+02:00"})},
		Msg: scen.Pick(r, []string{"probe message", "probe first line\nsecond line", "p"}),
	}
	for q := r.Intn(4); q > 0; q-- {
		probe.Args = append(probe.Args, scen.Arg{K: "attr", Key: fmt.Sprintf("p%d", q), Items: []scen.Arg{{K: scen.Pick(r, []string{"i", "s", "b", "dur"}), I: int64(r.Intn(1000)), S: "v"}}})
	}
	for _, id := range []int{2, 1} {
		pr := probe
		pr.L = id
		if grouped {
			pr.Args = append(append([]scen.Arg{}, probe.Args...), groupArg(id))
		}
		sc.Setup = append(sc.Setup, pr)
	}
	return sc
}

// c09TwinNorm: the two twins' group values differ in their ref only
func c09TwinNorm(j string) string {
	return strings.ReplaceAll(strings.ReplaceAll(j, `"ref":901`, `"ref":900`), `"ref":902`, `"ref":900`)
}

// c09TwinWellFormed: both loggers are made and configured by the same calls, only logger 1 prints
// before the probes, the two probes differ in the logger only.
func c09TwinWellFormed(sc *scen.Scenario) bool {
	var cfg [3][]string
	var probes [3]string
	seenProbe := false
	for i := range sc.Setup {
		op := sc.Setup[i]
		switch {
		case op.Probe:
			if op.Op != "write_thru" || op.L < 1 || op.L > 2 || probes[op.L] != "" || op.T == nil {
				return false
			}
			seenProbe = true
			l := op.L
			op.L = 0
			probes[l], _ = jsonOf(&op)
			probes[l] = c09TwinNorm(probes[l])
			if j, _ := jsonOf(&sc.Setup[i]); strings.Contains(j, `"ref":90`) && !strings.Contains(j, fmt.Sprintf(`"ref":%d`, 900+l)) {
				return false // a logger's calls carry its own caller's group
			}
		case seenProbe:
			return false
		case op.Op == "log":
			if op.L != 1 {
				return false
			}
			if j, _ := jsonOf(&op); strings.Contains(j, `"ref":902`) {
				return false
			}
		case op.Op == "mutate_group":
			if op.L < 1 || op.L > 2 || len(op.Args) < 1 || op.Args[0].Ref != 900+op.L {
				return false
			}
			l := op.L
			op.L = 0
			j, _ := jsonOf(&op)
			cfg[l] = append(cfg[l], c09TwinNorm(j))
		case op.Op == "new_root":
			if op.R < 1 || op.R > 2 || len(op.Opts) < 3 || op.Opts[0].W != op.R || op.Opts[1].W != op.R {
				return false
			}
			r := op.R
			op.R = 0
			op.Opts = op.Opts[2:]
			j, _ := jsonOf(&op)
			cfg[r] = append(cfg[r], j)
		case op.Op == "set":
			if op.L < 1 || op.L > 2 {
				return false
			}
			l := op.L
			op.L = 0
			j, _ := jsonOf(&op)
			cfg[l] = append(cfg[l], j)
		default:
			return false
		}
	}
	return probes[1] != "" && probes[1] == probes[2] && len(cfg[1]) > 0 && strings.Join(cfg[1], "|") == strings.Join(cfg[2], "|") && len(sc.Tasks) == 0 && len(sc.Tail) == 0
}

func c09TwinCheck(sc *scen.Scenario, run *orch.Run) []orch.Violation {
	var out []orch.Violation
	ops := indexOps(run)
	var w [3][]scen.Event
	var probe *scen.Op
	hist := 0
	for i := range sc.Setup {
		op := &sc.Setup[i]
		o := ops[opKey("setup", 0, i+1)]
		if o == nil {
			continue
		}
		if o.Panic != nil {
			out = append(out, orch.Violation{Rule: "C09.panic", Witness: "twin " + op.Op, Detail: o.Panic.S})
		}
		if op.Op == "log" {
			hist++
		}
		if op.Probe && op.L >= 1 && op.L <= 2 {
			w[op.L] = o.Writes
			probe = op
		}
	}
	if probe == nil {
		return out
	}
	if len(w[1]) != len(w[2]) {
		return append(out, orch.Violation{Rule: "C09.count", Witness: "twin", Detail: fmt.Sprintf("the probe caused %d writes on the logger that had printed before and %d on its silent twin", len(w[1]), len(w[2]))})
	}
	for k := range w[1] {
		a, b := heapAddrRe.ReplaceAll(w[2][k].P, []byte("0xADDR")), heapAddrRe.ReplaceAll(w[1][k].P, []byte("0xADDR"))
		if !bytes.Equal(a, b) {
			d := 0
			for d < len(a) && d < len(b) && a[d] == b[d] {
				d++
			}
			format := "?"
			if s := classifyShape(a); s >= 0 {
				format = fmtNames[s]
			}
			out = append(out, orch.Violation{Rule: "C09.bytes", Witness: "twin format=" + format,
				Detail: fmt.Sprintf("two loggers made and configured by the same calls give different bytes for the same call (severity %s, fixed timestamp and call site); one of them had printed %d records between the configuration calls: first difference at byte %d\n silent twin: %.400q\n the other:  %.400q", model.LevelName(probe.Lvl), hist, d, a, b)})
		}
	}
	return dedupe(out)
}

// c09Near is an instant for a history record given through WriteThru: unrelated to the probe's, or
// the very same instant in another zone, or in the same second, or a little earlier or later.
func c09Near(r *scen.Rng, p *scen.TimeSpec) *scen.TimeSpec {
	zone := scen.Pick(r, []string{"UTC", "+02:00", "+08:00", "-05:00", "+05:45"})
	switch r.Intn(6) {
	case 0:
		return &scen.TimeSpec{S: p.S, Ns: p.Ns, Zone: zone}
	case 1:
		return &scen.TimeSpec{S: p.S, Ns: int64(r.Intn(1e9)), Zone: scen.Pick(r, []string{p.Zone, zone})}
	case 2:
		return &scen.TimeSpec{S: p.S + int64(r.Range(-3, 3)), Ns: p.Ns, Zone: scen.Pick(r, []string{p.Zone, zone})}
	case 3:
		return &scen.TimeSpec{S: p.S + int64(scen.Pick(r, []int{-86400, 86400, -3600, 3600, -31536000})), Ns: int64(r.Intn(1e9)), Zone: p.Zone}
	}
	return &scen.TimeSpec{S: 1500000000 + int64(r.Intn(100000000)), Ns: int64(r.Intn(1e9)), Zone: scen.Pick(r, []string{"", zone})}
}

// c09RuneKin picks a rune for the probe's text and relatives of it for the history: code points that
// collide with it when a table is indexed by a truncated or folded code point (the low 16, 8 or 7 bits,
// another plane), preferring relatives the standard library classifies differently (printable or not).
func c09RuneKin(r *scen.Rng) (own string, kin []string) {
	valid := func(c rune) bool { return c >= 0x20 && c < 0x110000 && !(c >= 0xD800 && c < 0xE000) && c != 0x7f }
	for try := 0; try < 50; try++ {
		var a rune
		switch r.Intn(4) {
		case 0:
			a = rune(r.Range(0x1F300, 0x1F8FF)) // pictographs
		case 1:
			a = rune(r.Range(0xE000, 0xF8FF)) // private use
		case 2:
			a = rune(r.Range(0x100, 0xFFFF))
		default:
			a = rune(r.Range(0x10000, 0x2FFFF))
		}
		if !valid(a) {
			continue
		}
		var rel, differing []rune
		for _, c := range []rune{a + 0x10000, a - 0x10000, a + 0x20000, a & 0xFFFF, a&0xFF | 0x100, a & 0xFF, a & 0x7F, a ^ 0x8000, a + 0x100, a ^ 1} {
			if valid(c) && c != a {
				rel = append(rel, c)
				if strconv.IsPrint(c) != strconv.IsPrint(a) {
					differing = append(differing, c)
				}
			}
		}
		if len(rel) == 0 {
			continue
		}
		if len(differing) > 0 && r.Chance(3, 4) {
			rel = differing
		}
		for n := r.Range(1, 3); n > 0; n-- {
			kin = append(kin, "h"+string(scen.Pick(r, rel))+"x")
		}
		if r.Bool() {
			// the other way round: the history sees the rune itself first, the probe a relative
			o := kin[0]
			kin[0] = "h" + string(a) + "x"
			return o, kin
		}
		return "p" + string(a) + "x", kin
	}
	return "p\u00e9x", []string{"h\u00e8x"}
}

// noAddresses drops the value kinds whose text contains a heap address (func, chan, pointer).
func noAddresses(as []scen.Arg) []scen.Arg {
	var out []scen.Arg
	for _, a := range as {
		switch a.K {
		case "func", "chan", "ptr":
			continue
		}
		a.Items = noAddresses(a.Items)
		if (a.K == "attr" || a.K == "typed") && len(a.Items) == 0 {
			continue
		}
		out = append(out, a)
	}
	return out
}

func hasAddresses(as []scen.Arg) bool {
	for _, a := range as {
		switch a.K {
		case "func", "chan", "ptr":
			return true
		}
		if hasAddresses(a.Items) {
			return true
		}
	}
	return false
}

func (p *C09) WellFormed(sc *scen.Scenario) bool {
	if sc.Note == "twin" {
		return c09TwinWellFormed(sc)
	}
	if relogTokens(sc) == nil {
		return false
	}
	var pr *scen.Op
	n := 0
	for i := range sc.Setup {
		if sc.Setup[i].Probe {
			pr = &sc.Setup[i]
			n++
		}
	}
	if sc.Note == "cold" {
		// the probe is printed after the history only (the pristine bytes come from a reference world)
		if pr != nil {
			return false
		}
		for i := range sc.Tail {
			if sc.Tail[i].Probe {
				pr = &sc.Tail[i]
				n = 1
				break
			}
		}
	}
	if pr == nil || n != 1 || pr.Op != "write_thru" || pr.T == nil || hasAddresses(pr.Args) {
		return false
	}
	a, _ := jsonOf(pr)
	for i := range sc.Tail {
		if sc.Tail[i].Probe {
			b, _ := jsonOf(&sc.Tail[i])
			if a != b {
				return false
			}
		}
	}
	// no configuration change after the pristine probe that is not undone before the next probe
	open := ""
	for i := range sc.Tail {
		o := &sc.Tail[i]
		switch {
		case o.Op == "log" || (o.Op == "write_thru" && !o.Probe):
		case o.Probe:
			if open != "" {
				return false
			}
		case o.Op == "save_flags" && open == "":
			for _, f := range o.S {
				if strings.TrimPrefix(f, "-") == "LnoInterrupt" || strings.TrimPrefix(f, "-") == "Linterruptalways" {
					return false
				}
			}
			open = "restore_flags"
		case o.Op == "add_path" && open == "" && o.Name == "$SRCDIR/interp.go":
			open = "remove_path"
		case open != "" && o.Op == open && (o.Op != "remove_path" || o.Name == "$SRCDIR/interp.go"):
			open = ""
		default:
			return false
		}
	}
	if open != "" {
		return false
	}
	for _, t := range sc.Tasks {
		for i := range t.Ops {
			if t.Ops[i].Op != "log" && t.Ops[i].Op != "write_thru" {
				return false
			}
		}
	}
	seenProbe := false
	for i := range sc.Setup {
		if sc.Setup[i].Probe {
			seenProbe = true
		} else if seenProbe {
			return false
		}
	}
	return true
}

func jsonOf(op *scen.Op) (string, error) {
	b, err := jsonMarshal(op)
	return string(b), err
}

func (p *C09) Check(sc *scen.Scenario, run *orch.Run, env *orch.Env) []orch.Violation {
	var out []orch.Violation
	if run.Result != nil && run.Result.Budget != "" {
		return nil
	}
	if worldDied(run) {
		return []orch.Violation{{Rule: "C09.terminated", Witness: "world", Detail: fmt.Sprintf("world ended early exit=%d timeout=%v stderr=%.300q", run.ExitCode, run.TimedOut, lastLines(run.Stderr, 300))}}
	}
	if sc.Note == "twin" {
		return append(out, c09TwinCheck(sc, run)...)
	}
	ops := indexOps(run)
	// records issued from inside a value's String method carry the clock's time: they are not the probe's bytes
	own := func(ws []scen.Event) []scen.Event {
		var out []scen.Event
		for _, w := range ws {
			if w.W != c02NestedWriter {
				out = append(out, w)
			}
		}
		return out
	}
	var pristine []scen.Event
	var probe *scen.Op
	for i := range sc.Setup {
		if sc.Setup[i].Probe {
			probe = &sc.Setup[i]
			if o := ops[opKey("setup", 0, i+1)]; o != nil {
				pristine = own(o.Writes)
				if o.Panic != nil {
					out = append(out, orch.Violation{Rule: "C09.panic", Witness: "pristine", Detail: o.Panic.S})
				}
			}
		}
	}
	if sc.Note == "cold" {
		// the pristine bytes: the same set-up and the probe alone, in a world (process) of its own
		for i := range sc.Tail {
			if sc.Tail[i].Probe {
				probe = &sc.Tail[i]
				break
			}
		}
		if probe == nil || env == nil {
			return out
		}
		ref := *sc
		ref.Note = "cold-ref"
		ref.Tasks = nil
		ref.Tail = []scen.Op{*probe}
		rr := env.Exec1(&ref)
		if rr == nil || rr.Result == nil || worldDied(rr) {
			return []orch.Violation{{Rule: "HARNESS.reference", Witness: "cold", Detail: "the reference world (set-up and the probe alone) did not finish"}}
		}
		o := indexOps(rr)[opKey("tail", 0, 1)]
		if o == nil {
			return []orch.Violation{{Rule: "HARNESS.reference", Witness: "cold", Detail: "the reference world did not report the probe"}}
		}
		if o.Panic != nil {
			out = append(out, orch.Violation{Rule: "C09.panic", Witness: "pristine", Detail: o.Panic.S})
		}
		pristine = own(o.Writes)
	}
	if probe == nil {
		return out
	}
	histLen := 0
	for _, t := range sc.Tasks {
		histLen += len(t.Ops)
	}
	format := "?"
	if len(pristine) > 0 {
		if s := classifyShape(pristine[0].P); s >= 0 {
			format = fmtNames[s]
		}
	}
	for i := range sc.Tail {
		if !sc.Tail[i].Probe {
			continue
		}
		o := ops[opKey("tail", 0, i+1)]
		if o == nil {
			continue
		}
		if o.Panic != nil {
			out = append(out, orch.Violation{Rule: "C09.panic", Witness: "after-history", Detail: o.Panic.S})
			continue
		}
		o.Writes = own(o.Writes)
		if len(o.Writes) != len(pristine) {
			out = append(out, orch.Violation{Rule: "C09.count", Witness: "writes", Detail: fmt.Sprintf("the probe caused %d writes in the pristine world and %d after the history", len(pristine), len(o.Writes))})
			continue
		}
		for k := range pristine {
			// heap addresses printed for pointer-like values differ between two evaluations of the same op
			a, b := heapAddrRe.ReplaceAll(pristine[k].P, []byte("0xADDR")), heapAddrRe.ReplaceAll(o.Writes[k].P, []byte("0xADDR"))
			if pristine[k].W != o.Writes[k].W {
				out = append(out, orch.Violation{Rule: "C09.destination", Witness: "writer", Detail: fmt.Sprintf("probe went to writer %d pristine and to %d after the history", pristine[k].W, o.Writes[k].W)})
			}
			if !bytes.Equal(a, b) {
				// where do they differ?
				d := 0
				for d < len(a) && d < len(b) && a[d] == b[d] {
					d++
				}
				kind := "text"
				if strings.Contains(string(a[max0(d-6):minInt(len(a), d+6)]), "\x1b[") || strings.Contains(string(b[max0(d-6):minInt(len(b), d+6)]), "\x1b[") {
					kind = "colour"
				}
				registered := probe.Lvl >= 0 && probe.Lvl < model.MaxLevel
				out = append(out, orch.Violation{Rule: "C09.bytes", Witness: fmt.Sprintf("format=%s diff=%s level-registered=%v%s", format, kind, registered, map[bool]string{true: " cold"}[sc.Note == "cold"]),
					Detail: fmt.Sprintf("the same call (severity %s, fixed timestamp and call site) produced different bytes after a history of %d other calls on %d task(s): first difference at byte %d\n pristine: %.400q\n after:    %.400q", model.LevelName(probe.Lvl), histLen, len(sc.Tasks), d, a, b)})
			}
		}
	}
	return dedupe(out)
}

var heapAddrRe = regexp.MustCompile(`0x[0-9a-f]{6,}`)

func max0(a int) int {
	if a < 0 {
		return 0
	}
	return a
}

func minInt(a, b int) int {
	if a < b {
		return a
	}
	return b
}

func (p *C09) Classify(sc *scen.Scenario, run *orch.Run) (string, bool) {
	b, _ := jsonMarshal(sc.Setup)
	h := scen.HashString(string(b))
	if sc.Note == "twin" {
		n := 0
		for i := range sc.Setup {
			if sc.Setup[i].Op == "log" {
				n++
			}
		}
		return fmt.Sprintf("twin-%x", h), n > 0
	}
	n := 0
	for _, t := range sc.Tasks {
		n += len(t.Ops)
		for i := range t.Ops {
			h = scen.Mix(h, scen.HashString(t.Ops[i].Entry), uint64(t.Ops[i].Lvl), uint64(t.Ops[i].L))
		}
	}
	reuse := 0
	if run.Result != nil {
		reuse = run.Result.Stats["pool.reuse.poolPrintCtx"]
	}
	return fmt.Sprintf("%x", h), n > 0 && reuse > 0
}
