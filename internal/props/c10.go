package props

import (
	"bytes"
	"fmt"
	"regexp"
	"sort"
	"strings"
	"time"

	"verif/internal/model"
	"verif/internal/orch"
	"verif/internal/scen"
)

// C10 — logger hierarchy: lookup by name, inheritance at creation, isolation afterwards.
type C10 struct{}

func (*C10) ID() string     { return "C10" }
func (*C10) Level() string  { return "exploration" }
func (*C10) Engine() string { return "HIST+PROC" }
func (*C10) Rule() string {
	return "seeded histories of <=40 ops over a growing forest (detached roots and the default logger's subtree): New(name|anonymous, options), every With*, every Set*, WithSkip(n) repeated, Parent/Root/Sublogger/Each lookups, package SetLevel; simulated clock with tick in {1ns,100ns,1us,1ms,15.6ms} and 0-2us between reads (the anonymous-name generator reads it); map-order tape permutes the child index; after every op the getters of ALL loggers are compared with a reference tree, at the end a probe record per logger checks attrs, writers, UTC mode and layout; distinct = hash of the op sequence and clock tick; non-trivial = >=3 loggers, >=1 With* and >=1 Set* on a non-leaf"
}

func (*C10) Plan(tier string) orch.Plan {
	n := 4000
	if tier == "thorough" {
		n = 300000
	}
	return orch.Plan{Episodes: n, Batch: 1}
}

var c10Layouts = []string{time.RFC1123Z, "2006-01-02 15:04:05.000 -0700", "Jan _2 15:04:05.000000 Z07:00", time.RFC3339Nano}

const c10Zone = "+05:30"

// c10Name: the k-th user-given name; some contain characters a library might give a meaning to
func c10Name(k int) string {
	switch k % 7 {
	case 3:
		return fmt.Sprintf("net/n%d", k)
	case 5:
		return fmt.Sprintf("n%d.sub[0]", k)
	}
	return fmt.Sprintf("n%d", k)
}

func (p *C10) Gen(seed uint64, i int, tier string) *scen.Scenario {
	r := scen.NewRng(scen.Mix(seed, scen.HashString("C10"), uint64(i)))
	sc := &scen.Scenario{Property: "C10", Engine: "HIST+PROC", Seed: scen.Mix(seed, 110, uint64(i)) >> 12}
	sc.World.Isolated = true
	sc.World.Snap = true
	sc.World.RealFD = true
	sc.World.Flags = []string{"LnoInterrupt"}
	sc.World.Mode = "production"
	if r.Chance(1, 4) {
		sc.World.Mode = "testing"
	}
	tick := scen.Pick(r, []int64{1, 1, 100, 1000, 1000, 1000000, 15625000})
	sc.World.Clock = scen.Clock{TickNs: tick, MinStep: 20, MaxStep: 2000, Zone: c10Zone}

	type lg struct {
		id       int
		names    []string // names of direct children created by New(name)
		children int
	}
	loggers := []*lg{{id: 0}}
	byID := map[int]*lg{0: loggers[0]}
	nextID := 1
	nextW := 1
	attrN := 0
	sharedN := 0
	var sharedList *scen.Op
	levels := []int{model.Panic, model.Error, model.Warn, model.Info, model.Debug, model.Trace, model.Always, model.Off}
	setting := func(allowSkip bool) scen.Op {
		kinds := []string{"level", "level", "json", "color", "utc", "timefmt", "attrs", "attrs1", "args", "ctxkeys", "writer", "errwriter"}
		if allowSkip {
			kinds = append(kinds, "skip", "skip")
		}
		o := scen.Op{Kind: scen.Pick(r, kinds)}
		switch o.Kind {
		case "level":
			o.Lvl = scen.Pick(r, levels)
		case "json", "color", "utc":
			o.B = []bool{r.Bool()}
		case "timefmt":
			o.S = []string{scen.Pick(r, c10Layouts)}
		case "attrs", "attrs1":
			attrN++
			o.Args = []scen.Arg{{K: "attr", Key: fmt.Sprintf("k%d", attrN), Items: []scen.Arg{{K: "i", I: int64(attrN)}}}}
			if o.Kind == "attrs1" && r.Chance(1, 2) {
				// one caller-owned Attrs value given to several loggers
				if sharedList == nil || r.Chance(1, 4) {
					sharedN++
					sharedList = &scen.Op{J: int64(sharedN), Args: o.Args}
				}
				o.J, o.Args = sharedList.J, sharedList.Args
			}
		case "args":
			attrN++
			o.Args = []scen.Arg{{K: "key", S: fmt.Sprintf("k%d", attrN)}, {K: "i", I: int64(attrN)}}
		case "skip":
			o.I = int64(r.Range(0, 3))
		case "ctxkeys":
			o.Keys = []scen.CtxKey{{Kind: "s", Name: fmt.Sprintf("ck%d", r.Intn(3))}}
		case "writer", "errwriter":
			o.W = nextW
			o.WK = "plain"
			nextW++
		}
		return o
	}
	var allNames []string
	nOps := r.Range(4, 40)
	_ = sharedN
	for k := 0; k < nOps; k++ {
		l := scen.Pick(r, loggers)
		switch c := r.Intn(100); {
		case c < 22 && len(loggers) < 10: // New on a logger
			op := scen.Op{Op: "new_child", L: l.id, R: nextID}
			switch r.Intn(4) {
			case 0: // anonymous
				if r.Bool() {
					op.Named = true
				}
			case 1: // existing name (lookup)
				if len(l.names) > 0 {
					op.Name, op.Named = scen.Pick(r, l.names), true
				} else {
					op.Name, op.Named = c10Name(nextID), true
				}
				if len(allNames) > 0 && r.Chance(1, 2) {
					// a name in use somewhere else in the forest (another depth, the receiver itself, a sibling subtree)
					op.Name, op.Named = scen.Pick(r, allNames), true
				}
			default:
				op.Name, op.Named = c10Name(nextID), true
			}
			for q := r.Intn(3); q > 0; q-- {
				op.Opts = append(op.Opts, setting(false))
			}
			if r.Chance(1, 4) {
				// free-form attribute arguments before / between the options (only with options that carry no attributes)
				hasAttrOpt := false
				for _, o := range op.Opts {
					if o.Kind == "attrs" || o.Kind == "attrs1" || o.Kind == "args" {
						hasAttrOpt = true
					}
				}
				if !hasAttrOpt && op.Named {
					attrN++
					op.Args = []scen.Arg{{K: "key", S: fmt.Sprintf("k%d", attrN)}, {K: "i", I: int64(attrN)}}
					op.Kind = scen.Pick(r, []string{"args_first", "interleaved", ""})
				}
			}
			existing := false
			for _, n := range l.names {
				if n == op.Name && op.Name != "" {
					existing = true
				}
			}
			sc.Setup = append(sc.Setup, op)
			if !existing {
				if op.Name != "" {
					l.names = append(l.names, op.Name)
					allNames = append(allNames, op.Name)
				}
				l.children++
				n := &lg{id: nextID}
				loggers = append(loggers, n)
				byID[nextID] = n
				nextID++
			}
		case c < 28 && len(loggers) < 10: // package-level New
			op := scen.Op{Op: "new_root", R: nextID}
			if r.Bool() {
				op.Name, op.Named = fmt.Sprintf("r%d", nextID), true
			}
			for q := r.Intn(3); q > 0; q-- {
				op.Opts = append(op.Opts, setting(false))
			}
			sc.Setup = append(sc.Setup, op)
			n := &lg{id: nextID}
			loggers = append(loggers, n)
			byID[nextID] = n
			nextID++
		case c < 55 && len(loggers) < 12: // With*
			o := setting(true)
			o.Op, o.L, o.R = "with", l.id, nextID
			sc.Setup = append(sc.Setup, o)
			l.children++
			n := &lg{id: nextID}
			loggers = append(loggers, n)
			byID[nextID] = n
			nextID++
		case c < 82: // Set*
			o := setting(true)
			o.Op, o.L = "set", l.id
			sc.Setup = append(sc.Setup, o)
		case c < 84:
			sc.Setup = append(sc.Setup, scen.Op{Op: "pkg_set_level", Lvl: scen.Pick(r, levels)})
		case c < 86:
			// the package-level forms act on the default logger
			if r.Bool() {
				sc.Setup = append(sc.Setup, scen.Op{Op: "set", L: 0, Kind: "skip", I: int64(r.Range(0, 3)), Name: "pkg"})
			} else if len(loggers) < 12 {
				sc.Setup = append(sc.Setup, scen.Op{Op: "with", L: 0, R: nextID, Kind: "skip", I: int64(r.Range(0, 3)), Name: "pkg"})
				loggers[0].children++
				nl := &lg{id: nextID}
				loggers = append(loggers, nl)
				byID[nextID] = nl
				nextID++
			}
		case c < 90:
			sc.Setup = append(sc.Setup, scen.Op{Op: "parent", L: l.id}, scen.Op{Op: "root", L: l.id})
		case c < 95:
			sc.Setup = append(sc.Setup, scen.Op{Op: "each", L: l.id})
		default:
			if r.Bool() {
				// by the name another logger of the history actually carries (whatever the library called it:
				// children made by With... calls have names of the library's own making)
				sc.Setup = append(sc.Setup, scen.Op{Op: "sublogger", L: l.id, R: scen.Pick(r, loggers).id})
			} else {
				sc.Setup = append(sc.Setup, scen.Op{Op: "sublogger", L: l.id, Name: c10Name(r.Range(1, nextID))})
			}
		}
	}
	// final lookups over the whole forest, then the probes
	for _, l := range loggers {
		sc.Setup = append(sc.Setup, scen.Op{Op: "each", L: l.id}, scen.Op{Op: "parent", L: l.id}, scen.Op{Op: "root", L: l.id})
	}
	n := 0
	for _, l := range loggers {
		n++
		sc.Setup = append(sc.Setup, scen.Op{Op: "log", L: l.id, Entry: "Print", Msg: "probe" + tok(n), Tok: tok(n), Probe: true})
		n++
		sc.Setup = append(sc.Setup, scen.Op{Op: "log", L: l.id, Entry: "Error", Lvl: model.Error, Msg: "probe" + tok(n), Tok: tok(n), Probe: true})
	}
	return sc
}

type c10Logger struct {
	id        int
	name      string
	nameKnown bool
	parent    int
	level     int
	format    int
	skip      int
	attrs     []string
	utc       int
	layout    string
	children  map[string]int // New(name) index
	skipKids  map[int]int
	kids      []int
	writers   *model.Writers
}

func c10Apply(m *c10Logger, o *scen.Op) {
	switch o.Kind {
	case "level":
		m.level = o.Lvl
	case "json", "color":
		m.format = fmtApply(m.format, o.Kind, o.B)
	case "utc":
		mode := 2
		if len(o.B) > 0 && !o.B[len(o.B)-1] {
			mode = 1
		}
		m.utc = mode
	case "timefmt":
		if len(o.S) > 0 {
			m.layout = o.S[len(o.S)-1]
		}
	case "attrs", "attrs1":
		for _, a := range o.Args {
			m.attrs = append(m.attrs, a.Key)
		}
	case "args":
		for i := 0; i+1 < len(o.Args); i += 2 {
			m.attrs = append(m.attrs, o.Args[i].S)
		}
	case "skip":
		m.skip = int(o.I)
	default:
		m.writers.Apply(o.Kind, o.W, o.Lvl)
	}
}

var sgrRe = regexp.MustCompile("\x1b\\[[0-9;]*m")

func stripSGR(p []byte) string { return sgrRe.ReplaceAllString(string(p), "") }

// timeText extracts the timestamp text of a record in any of the three formats.
func timeText(p []byte) (string, bool) {
	s := stripSGR(p)
	switch {
	case strings.HasPrefix(s, `{"time":"`):
		rest := s[len(`{"time":"`):]
		if i := strings.IndexByte(rest, '"'); i >= 0 {
			return rest[:i], true
		}
	case strings.HasPrefix(s, `time="`):
		rest := s[len(`time="`):]
		if i := strings.IndexByte(rest, '"'); i >= 0 {
			return rest[:i], true
		}
	default:
		if i := strings.IndexByte(s, '|'); i >= 0 {
			return s[:i], true
		}
	}
	return "", false
}

func (p *C10) Check(sc *scen.Scenario, run *orch.Run, env *orch.Env) []orch.Violation {
	var out []orch.Violation
	add := func(rule, witness, format string, a ...any) {
		out = append(out, orch.Violation{Rule: rule, Witness: witness, Detail: fmt.Sprintf(format, a...)})
	}
	if worldDied(run) {
		return []orch.Violation{{Rule: "C10.terminated", Witness: "world", Detail: fmt.Sprintf("world ended early exit=%d stderr=%.300q", run.ExitCode, lastLines(run.Stderr, 300))}}
	}
	ops := indexOps(run)
	ms := map[int]*c10Logger{}
	pkgLevel := -1 // unknown until observed (testing mode) / Warn in production
	if sc.World.Mode == "production" {
		pkgLevel = model.Warn
	}
	def := &c10Logger{id: 0, nameKnown: true, parent: -1, level: pkgLevel, format: fmtColor, children: map[string]int{}, skipKids: map[int]int{}, writers: model.NewWriters()}
	ms[0] = def
	broken := false // after a structural divergence the model cannot follow; stop at the first one

	newChild := func(parent *c10Logger, id int) *c10Logger {
		c := &c10Logger{id: id, parent: parent.id, level: parent.level, format: parent.format, children: map[string]int{}, skipKids: map[int]int{}, writers: model.NewWriters()}
		parent.kids = append(parent.kids, id)
		ms[id] = c
		return c
	}
	subtree := func(root int) map[int]int {
		depth := map[int]int{root: 0}
		q := []int{root}
		for len(q) > 0 {
			x := q[0]
			q = q[1:]
			for _, k := range ms[x].kids {
				depth[k] = depth[x] + 1
				q = append(q, k)
			}
		}
		return depth
	}
	rootOf := func(id int) int {
		for ms[id].parent >= 0 {
			id = ms[id].parent
		}
		return id
	}

	for i := range sc.Setup {
		if broken {
			break
		}
		op := &sc.Setup[i]
		o := ops[opKey("setup", 0, i+1)]
		if o == nil {
			continue
		}
		what := op.Op
		if op.Op == "with" || op.Op == "set" {
			what += "/" + op.Kind
		}
		if o.Panic != nil {
			add("C10.panic", "op="+what, "setup[%d] %s panicked: %s", i, what, o.Panic.S)
			broken = true
			continue
		}
		if o.Skipped {
			continue
		}
		target := -1
		var rl struct {
			ID     int  `json:"id"`
			New    bool `json:"new"`
			IsRecv bool `json:"is_recv"`
			Nil    bool `json:"nil"`
		}
		switch op.Op {
		case "new_root":
			if !retInto(o, &rl) {
				continue
			}
			if !rl.New {
				add("C10.new_root", "not-new", "package-level New returned an already known logger (id %d)", rl.ID)
				broken = true
				continue
			}
			m := &c10Logger{id: rl.ID, name: op.Name, nameKnown: true, parent: -1, level: pkgLevel, format: fmtColor, children: map[string]int{}, skipKids: map[int]int{}, writers: model.NewWriters()}
			for k := range op.Opts {
				c10Apply(m, &op.Opts[k])
			}
			for _, a := range flattenArgs(op.Args) {
				m.attrs = append(m.attrs, a.Key)
			}
			ms[rl.ID] = m
			target = rl.ID
		case "new_child":
			recv := ms[op.L]
			if recv == nil || !retInto(o, &rl) {
				continue
			}
			if ex, ok := recv.children[op.Name]; ok && op.Name != "" {
				if rl.ID != ex || rl.New {
					add("C10.lookup", "New(existing name)", "New(%q) on logger %d must return the existing direct child %d, got id=%d new=%v", op.Name, op.L, ex, rl.ID, rl.New)
					broken = true
				}
				continue
			}
			if !rl.New {
				w := "New(new name)"
				if op.Name == "" {
					w = "New(anonymous)"
				}
				add("C10.create", w, "New(%q) on logger %d has no direct child of that name and must create one, but returned the existing logger %d (clock tick %dns)", op.Name, op.L, rl.ID, sc.World.Clock.TickNs)
				broken = true
				continue
			}
			m := newChild(recv, rl.ID)
			if op.Name != "" {
				m.name, m.nameKnown = op.Name, true
				recv.children[op.Name] = rl.ID
			}
			for k := range op.Opts {
				c10Apply(m, &op.Opts[k])
			}
			for _, a := range flattenArgs(op.Args) {
				m.attrs = append(m.attrs, a.Key)
			}
			target = rl.ID
		case "with":
			recv := ms[op.L]
			if recv == nil || !retInto(o, &rl) {
				continue
			}
			if rl.IsRecv || rl.ID == op.L {
				add("C10.with", "returns-receiver kind="+op.Kind, "With(%s) returned the receiver itself", op.Kind)
				broken = true
				continue
			}
			if op.Kind == "skip" {
				if ex, ok := recv.skipKids[int(op.I)]; ok {
					if rl.ID != ex {
						add("C10.withskip", "second-call", "WithSkip(%d) on logger %d must keep one child per n (%d), got %d", op.I, op.L, ex, rl.ID)
						broken = true
						continue
					}
					// the kept child is returned "carrying the setting": its skip count is n again,
					// even if SetSkip changed it in between
					ms[ex].skip = int(op.I)
					target = ex
					break
				}
				if !rl.New {
					add("C10.with", "not-new kind=skip", "first WithSkip(%d) on logger %d returned the known logger %d", op.I, op.L, rl.ID)
					broken = true
					continue
				}
				m := newChild(recv, rl.ID)
				m.skip = int(op.I)
				recv.skipKids[int(op.I)] = rl.ID
				target = rl.ID
				break
			}
			if !rl.New {
				add("C10.with", "not-new", "With(%s) on logger %d must return a newly created child but returned the existing logger %d, whose settings it then changed (clock tick %dns)", op.Kind, op.L, rl.ID, sc.World.Clock.TickNs)
				broken = true
				continue
			}
			m := newChild(recv, rl.ID)
			c10Apply(m, op)
			target = rl.ID
		case "set":
			recv := ms[op.L]
			if recv == nil {
				continue
			}
			if op.Kind != "skip" {
				if retInto(o, &rl) && !rl.IsRecv {
					add("C10.set", "returns-other kind="+op.Kind, "Set(%s) on logger %d did not return the receiver (got %d)", op.Kind, op.L, rl.ID)
				}
			}
			c10Apply(recv, op)
			target = op.L
		case "pkg_set_level":
			pkgLevel = op.Lvl
			def.level = op.Lvl
			target = 0
		case "parent", "root":
			recv := ms[op.L]
			var r struct {
				ID int `json:"id"`
			}
			if recv == nil || !retInto(o, &r) {
				continue
			}
			want := recv.parent
			if op.Op == "root" {
				want = rootOf(op.L)
			}
			if r.ID != want {
				add("C10."+op.Op, "lookup", "%s() of logger %d is %d, the creation history says %d", op.Op, op.L, r.ID, want)
			}
			continue
		case "each":
			if ms[op.L] == nil {
				continue
			}
			var vs []struct {
				ID    int `json:"id"`
				Depth int `json:"depth"`
			}
			if !retInto(o, &vs) {
				continue
			}
			want := subtree(op.L)
			seen := map[int]int{}
			for _, v := range vs {
				seen[v.ID]++
				if d, ok := want[v.ID]; !ok {
					add("C10.each", "foreign", "Each on logger %d visited logger %d which is not in its subtree", op.L, v.ID)
				} else if d != v.Depth {
					add("C10.each", "depth", "Each on logger %d visited logger %d at depth %d, creation history says %d", op.L, v.ID, v.Depth, d)
				}
			}
			for id := range want {
				if seen[id] != 1 {
					add("C10.each", "count", "Each on logger %d visited logger %d %d times (must be exactly once)", op.L, id, seen[id])
				}
			}
			continue
		case "sublogger":
			if ms[op.L] == nil {
				continue
			}
			var r struct {
				ID    int    `json:"id"`
				Name  string `json:"name"`
				Asked string `json:"asked"`
			}
			if !retInto(o, &r) {
				continue
			}
			st := subtree(op.L)
			exists := false
			if op.Name == "" && op.R > 0 {
				// asked by the actual name of logger op.R
				if r.Asked == "" {
					continue
				}
				op = &scen.Op{Op: op.Op, L: op.L, R: op.R, Name: r.Asked}
				if _, in := st[op.R]; in {
					exists = true
				}
			}
			for id := range st {
				if ms[id].nameKnown && ms[id].name == op.Name {
					exists = true
				}
			}
			switch {
			case exists && r.ID == -1:
				add("C10.sublogger", "missed", "Sublogger(%q) on logger %d returned nil although the subtree has a logger of that name", op.Name, op.L)
			case r.ID >= 0:
				if _, in := st[r.ID]; !in || r.Name != op.Name {
					add("C10.sublogger", "wrong", "Sublogger(%q) on logger %d returned logger %d named %q (in subtree: %v)", op.Name, op.L, r.ID, r.Name, in)
				}
			case r.ID == -2:
				add("C10.sublogger", "unknown", "Sublogger(%q) returned a logger the history never created", op.Name)
			}
			continue
		case "log":
			m := ms[op.L]
			if m == nil || !op.Probe {
				continue
			}
			p.checkProbe(sc, run, op, o, m, ms, add)
			continue
		default:
			continue
		}
		// isolation snapshot: every logger equals the model; only the target may have changed
		snap := snapOf(o.Snap)
		ids := make([]int, 0, len(ms))
		for id := range ms {
			ids = append(ids, id)
		}
		sort.Ints(ids)
		for _, id := range ids {
			m := ms[id]
			s, ok := snap[id]
			if !ok {
				continue
			}
			if !m.nameKnown {
				m.name, m.nameKnown = s.Name, true
				if s.Name == "" && m.parent >= 0 {
					add("C10.name", "empty", "anonymous child %d has an empty name", id)
				}
			}
			if m.level < 0 {
				m.level = s.Level // testing mode: no claim about the initial default level
				if id == 0 && pkgLevel < 0 {
					pkgLevel = s.Level
				}
			}
			who := "other"
			if id == target {
				who = "target"
			}
			chk := func(field string, got, want any) {
				if got != want {
					add("C10.state", fmt.Sprintf("%s field=%s op=%s", who, field, what),
						"after setup[%d] %s on logger %d: logger %d has %s=%v, the reference tree says %v", i, what, op.L, id, field, got, want)
					broken = true
				}
			}
			chk("name", s.Name, m.name)
			chk("level", s.Level, m.level)
			chk("json", s.JSON, m.format == fmtJSON)
			chk("color", s.Color, m.format == fmtColor)
			chk("skip", s.Skip, m.skip)
			chk("parent", s.Parent, m.parent)
			chk("root", s.Root, rootOf(id))
		}
	}
	return dedupe(out)
}

func (p *C10) checkProbe(sc *scen.Scenario, run *orch.Run, op *scen.Op, o *opObs, m *c10Logger, ms map[int]*c10Logger, add func(rule, witness, format string, a ...any)) {
	reg := model.NewRegistry()
	sev := model.Always
	if op.Entry == "Error" {
		sev = model.Error
	}
	admitted := reg.Admitted(m.level, sev, false)
	if admitted == model.Unknown {
		return
	}
	want, _ := m.writers.Select(reg, sev)
	var payloads [][]byte
	got := map[int]int{}
	for _, w := range o.Writes {
		if containsTok(w.P, op.Tok) {
			got[w.W]++
			payloads = append(payloads, w.P)
		}
	}
	for _, stream := range []struct {
		id int
		b  []byte
	}{{model.Stdout, run.Stdout}, {model.Stderr, run.Stderr}} {
		for _, line := range bytes.Split(stream.b, []byte("\n")) {
			if containsTok(line, op.Tok) {
				got[stream.id]++
				payloads = append(payloads, line)
			}
		}
	}
	exp := map[int]int{}
	if admitted == model.Admit {
		for _, w := range want {
			exp[w]++
		}
	}
	ids := map[int]bool{}
	for w := range got {
		ids[w] = true
	}
	for w := range exp {
		ids[w] = true
	}
	for _, w := range sortedKeysInt(ids) {
		if got[w] != exp[w] {
			add("C10.probe.writers", "mismatch", "probe %s on logger %d: destination %d received it %d time(s), its own writer settings denote %d", op.Tok, op.L, w, got[w], exp[w])
		}
	}
	if len(payloads) == 0 {
		return
	}
	pl := payloads[0]
	text := stripSGR(pl)
	// format
	if shape := classifyShape(pl); shape != m.format && !(shape == -1) {
		add("C10.probe.format", "shape", "probe on logger %d looks %s, the reference tree says %s", op.L, fmtNames[shape], fmtNames[m.format])
	}
	// own attributes present, foreign ones absent (the inherit flag is off)
	has := func(k string) bool {
		return strings.Contains(text, " "+k+"=") || strings.Contains(text, `"`+k+`":`)
	}
	for _, k := range m.attrs {
		if !has(k) {
			add("C10.probe.attrs", "own-missing", "probe on logger %d lacks its own attribute %s: %.200q", op.L, k, text)
		}
	}
	for id, other := range ms {
		if id == m.id {
			continue
		}
		for _, k := range other.attrs {
			mine := false
			for _, own := range m.attrs {
				if own == k {
					mine = true // the same caller-owned list was given to both loggers
				}
			}
			if !mine && has(k) {
				add("C10.probe.attrs", "foreign", "probe on logger %d carries attribute %s that was given to logger %d only", op.L, k, id)
			}
		}
	}
	// zone mode and layout
	tt, ok := timeText(pl)
	if !ok {
		return
	}
	wantUTC := m.utc == 2 // LlocalTime is part of the default flags, so "unset" means the instant's own zone
	if m.layout != "" {
		t, err := time.Parse(m.layout, tt)
		if err != nil {
			add("C10.probe.layout", "parse", "probe on logger %d: time text %q does not parse with the logger's layout %q", op.L, tt, m.layout)
			return
		}
		_, off := t.Zone()
		if wantUTC && off != 0 || !wantUTC && off != 5*3600+1800 {
			add("C10.probe.utc", "zone", "probe on logger %d: time text %q has offset %ds, UTC mode of the logger is %d", op.L, tt, off, m.utc)
		}
	} else {
		isZ := strings.HasSuffix(tt, "Z")
		if wantUTC != isZ {
			add("C10.probe.utc", "zone", "probe on logger %d: time text %q, UTC mode of the logger is %d", op.L, tt, m.utc)
		}
	}
}

func (p *C10) Classify(sc *scen.Scenario, run *orch.Run) (string, bool) {
	var sb strings.Builder
	loggers, withs := 1, 0
	hasKids := map[int]bool{}
	setNonLeaf := false
	for i := range sc.Setup {
		op := &sc.Setup[i]
		if op.Op == "log" {
			continue
		}
		fmt.Fprintf(&sb, "%s:%d:%s:%s;", op.Op, op.L, op.Kind, op.Name)
		switch op.Op {
		case "new_root":
			loggers++
		case "new_child":
			loggers++
			hasKids[op.L] = true
		case "with":
			loggers++
			withs++
			hasKids[op.L] = true
		case "set":
			if hasKids[op.L] {
				setNonLeaf = true
			}
		}
	}
	fmt.Fprintf(&sb, "tick=%d", sc.World.Clock.TickNs)
	return fmt.Sprintf("%x", scen.HashString(sb.String())), loggers >= 3 && withs >= 1 && setNonLeaf
}
