package props

import (
	"fmt"
	"path/filepath"
	"regexp"
	"strings"

	"verif/internal/orch"
	"verif/internal/scen"
)

// C18 — path hardening never lets a protected directory prefix through.
type C18 struct{}

func (*C18) ID() string     { return "C18" }
func (*C18) Level() string  { return "exploration" }
func (*C18) Engine() string { return "HIST" }
func (*C18) Rule() string {
	return "world parameters $HOME and cwd (home under cwd, cwd under home, disjoint, home = /); seeded histories of Add/Remove known-path (and regexp) mappings incl. nested prefixes, string-prefixes that are not path-prefixes (/home/u vs /home/user2) and keys occurring twice in a path; privacy flags on/off; queries through Safety, SafetyFiles and the caller.file of records; every base history is run under 24 map-order tapes, i.e. under every iteration order of the mapping table when it has <= 4 entries; order-independent oracle; distinct = (history, query set, order index); non-trivial = >= 2 mappings applicable to one query and an order other than sorted was used"
}

const c18Orders = 24

func (*C18) Plan(tier string) orch.Plan {
	n := 200
	if tier == "thorough" {
		n = 12000
	}
	return orch.Plan{Episodes: n * c18Orders, Batch: 1}
}

type c18Layout struct{ home, cwd string }

var c18Layouts = []c18Layout{
	{"/usr/lib", "/usr"},       // home under cwd
	{"/usr", "/usr/lib"},       // cwd under home
	{"/home/u", "/usr/lib"},    // disjoint
	{"/", "/usr"},              // home = /
	{"/home/u", "/"},           // cwd = /
	{"/home/user", "/dev/shm"}, // disjoint
}

func (p *C18) Gen(seed uint64, e int, tier string) *scen.Scenario {
	i, v := e/c18Orders, e%c18Orders
	r := scen.NewRng(scen.Mix(seed, scen.HashString("C18"), uint64(i)))
	sc := &scen.Scenario{Property: "C18", Engine: "HIST", Seed: scen.Mix(seed, 118, uint64(i)) >> 12}
	lay := scen.Pick(r, c18Layouts)
	sc.World.Isolated = true
	sc.World.RawPaths = true
	sc.World.Home, sc.World.Cwd = lay.home, lay.cwd
	sc.World.Mode = scen.Pick(r, []string{"production", "production", "testing"})
	sc.World.Flags = []string{"LnoInterrupt", "Lcaller"}
	sc.World.Clock = scen.Clock{TickNs: 1, MinStep: 40, MaxStep: 400}
	mapTape := make([]int, 96)
	for k := range mapTape {
		mapTape[k] = v
	}
	sc.Tapes = &scen.Tapes{Map: mapTape}

	bases := []string{lay.home, lay.cwd, "/home/u", "/home/user2", "/opt/x", "/opt/x/y", "/srv", "$SRCROOT", "$SRCROOT/internal"}
	repls := []string{"~", "~u", "$X", "$Y", "@", "=v", "%"}
	var added, asked []string
	addedRe := []string{}
	queries := func() []string {
		var qs []string
		dirs := append([]string{}, bases...)
		dirs = append(dirs, added...)
		for k := r.Range(1, 4); k > 0; k-- {
			if len(asked) > 0 && r.Chance(1, 3) {
				qs = append(qs, scen.Pick(r, asked)) // the very same path string again, after whatever changed meanwhile
				continue
			}
			d := scen.Pick(r, dirs)
			if d == "/" {
				d = ""
			}
			if len(addedRe) > 0 && r.Chance(1, 4) {
				// under a directory that may be mapped AND matching a registered expression
				qs = append(qs, scen.Pick(r, []string{d + "/elsewhere/e.go", "/srv/a.go", "/srv/sub/b.go", "/opt/x/c.go", "/opt/x/y/d.go", d + "/opt/z/f.go"}))
				continue
			}
			switch r.Intn(9) {
			case 0:
				qs = append(qs, d+"/a.go")
			case 1:
				qs = append(qs, d+"/sub/dir/b.go")
			case 2:
				qs = append(qs, d+"x/c.go") // string-prefix, not path-prefix
			case 3:
				qs = append(qs, d+"/p"+d+"/d.go") // the key occurs twice
			case 4:
				if d != "" {
					qs = append(qs, d)
				}
			case 5:
				qs = append(qs, scen.Pick(r, []string{"a/b.go", "./x.go", "../y.go", "z.go", ""}))
			case 6:
				qs = append(qs, "/elsewhere"+d+"/e.go")
			case 7:
				qs = append(qs, d+"/sub/")
			default:
				qs = append(qs, d+"2/f.go")
			}
		}
		asked = append(asked, qs...)
		return qs
	}
	sc.Setup = append(sc.Setup, scen.Op{Op: "new_root", R: 1, Name: "p", Named: true,
		Opts: []scen.Op{{Kind: "writer", W: 1}, {Kind: "errwriter", W: 1}, {Kind: "level", Lvl: 8}, {Kind: scen.Pick(r, []string{"json", "color"}), B: []bool{r.Bool()}}}})
	n := r.Range(2, 10)
	tk := 0
	saved := 0
	for k := 0; k < n; k++ {
		switch c := r.Intn(12); {
		case c < 4:
			d := scen.Pick(r, bases[2:])
			if r.Chance(1, 6) {
				d += "/" // a directory registered with its trailing slash
			}
			sc.Setup = append(sc.Setup, scen.Op{Op: "add_path", Name: d, Msg: scen.Pick(r, repls)})
			added = append(added, d)
		case c < 5 && len(added) > 0:
			sc.Setup = append(sc.Setup, scen.Op{Op: "remove_path", Name: scen.Pick(r, added)})
		case c < 8:
			ex := scen.Pick(r, []string{`/opt/[^/]+/`, `^/srv/`, `/elsewhere/`})
			sc.Setup = append(sc.Setup, scen.Op{Op: "add_path_re", Name: ex, Msg: scen.Pick(r, []string{"@", "~"})})
			addedRe = append(addedRe, ex)
			if r.Chance(1, 3) {
				// the same expression registered once more (the table is a list: one removal takes one entry away)
				sc.Setup = append(sc.Setup, scen.Op{Op: "add_path_re", Name: ex, Msg: scen.Pick(r, []string{"@", "~"})})
				addedRe = append(addedRe, ex)
			}
		case c < 9 && len(addedRe) > 0:
			sc.Setup = append(sc.Setup, scen.Op{Op: "remove_path_re", Name: scen.Pick(r, addedRe)})
		case c < 10:
			sc.Setup = append(sc.Setup, scen.Op{Op: scen.Pick(r, []string{"add_flags", "remove_flags"}), S: []string{scen.Pick(r, []string{"Lprivacypath", "Lprivacypathregexp"})}})
		case c < 11:
			// the flag changed for a while through SaveFlagsAndMod and its restore function
			if saved > 0 && r.Bool() {
				sc.Setup = append(sc.Setup, scen.Op{Op: "restore_flags"})
				saved--
			} else if r.Bool() {
				sc.Setup = append(sc.Setup, scen.Op{Op: "save_flags", S: []string{scen.Pick(r, []string{"-Lprivacypath", "-Lprivacypath", "-Lprivacypathregexp", "Lprivacypath", "Lprivacypathregexp"})}})
				saved++
			} else {
				// the whole idiom at once: defer SaveFlagsAndMod(...)() around some work, the same paths before, inside and after
				qs := queries()
				for _, q := range qs {
					sc.Setup = append(sc.Setup, scen.Op{Op: "safety", Name: q})
				}
				sc.Setup = append(sc.Setup, scen.Op{Op: "save_flags", S: []string{scen.Pick(r, []string{"-Lprivacypath", "-Lprivacypath", "-Lprivacypathregexp", "Lprivacypath"})}})
				for _, q := range qs {
					sc.Setup = append(sc.Setup, scen.Op{Op: "safety", Name: q})
				}
				sc.Setup = append(sc.Setup, scen.Op{Op: "restore_flags"})
				for _, q := range qs {
					sc.Setup = append(sc.Setup, scen.Op{Op: "safety", Name: q})
				}
				continue
			}
		}
		if r.Chance(2, 3) {
			for _, q := range queries() {
				sc.Setup = append(sc.Setup, scen.Op{Op: "safety", Name: q})
			}
		} else if r.Bool() {
			sc.Setup = append(sc.Setup, scen.Op{Op: "safety_files", S: queries()})
		} else {
			tk++
			sc.Setup = append(sc.Setup, scen.Op{Op: "log", L: 1, Entry: "Info", Lvl: 4, Msg: "m" + tok(tk), Tok: tok(tk), Probe: true})
		}
	}
	return sc
}

// WellFormed: generator invariants the oracle relies on.
func (p *C18) WellFormed(sc *scen.Scenario) bool {
	ok := false
	for _, l := range c18Layouts {
		if l.home == sc.World.Home && l.cwd == sc.World.Cwd {
			ok = true
		}
	}
	if !ok || !sc.World.RawPaths || sc.World.Mode == "" {
		return false
	}
	for i := range sc.Setup {
		op := &sc.Setup[i]
		switch op.Op {
		case "add_path", "remove_path":
			if len(op.Name) < 2 || (op.Name[0] != '/' && !strings.HasPrefix(op.Name, "$SRCROOT")) {
				return false
			}
			if op.Op == "add_path" && (op.Msg == "" || op.Msg[0] == '/') {
				return false
			}
		case "add_path_re", "remove_path_re":
			if _, err := regexp.Compile(op.Name); err != nil || op.Name == "" {
				return false
			}
		case "log":
			if op.Tok == "" {
				return false
			}
		}
	}
	return true
}

func under(q, d string) bool {
	if d == "" {
		return false
	}
	if d == "/" {
		return strings.HasPrefix(q, "/")
	}
	if strings.HasSuffix(d, "/") {
		return strings.HasPrefix(q, d) // the directory itself, written without the slash, is judged separately
	}
	dd := strings.TrimSuffix(d, "/")
	return q == dd || q == d || strings.HasPrefix(q, dd+"/")
}

var callerFileRe = regexp.MustCompile(`"file":"([^"]*)"|caller\.file="([^"]*)"`)
var callerColorRe = regexp.MustCompile(` (\S+):\d+ \S+\n?$`)

func (p *C18) Check(sc *scen.Scenario, run *orch.Run, env *orch.Env) []orch.Violation {
	var out []orch.Violation
	if worldDied(run) {
		return []orch.Violation{{Rule: "C18.terminated", Witness: "world", Detail: fmt.Sprintf("world ended early exit=%d stderr=%.300q", run.ExitCode, lastLines(run.Stderr, 300))}}
	}
	ops := indexOps(run)
	// the directory the world's interpreter was compiled from (caller.file of its records)
	srcDirOf := ""
	for _, e := range run.Events {
		if e.K == "start" {
			if i := strings.Index(e.S, "src="); i >= 0 {
				srcDirOf = e.S[i+4:]
			}
			break
		}
	}
	expand := func(s string) string {
		s = strings.ReplaceAll(s, "$SRCDIR", srcDirOf)
		return strings.ReplaceAll(s, "$SRCROOT", filepath.Dir(filepath.Dir(srcDirOf)))
	}
	home, cwd := sc.World.Home, sc.World.Cwd
	maps := map[string]string{}
	var order []string
	put := func(k, v string) {
		if _, ok := maps[k]; !ok {
			order = append(order, k)
		}
		maps[k] = v
	}
	put(home, "~")
	put(cwd, ".")
	var res []string
	// package defaults: the privacy flags are on; a testing-mode process switches the regexp flag off at start
	privacy, privacyRe := true, sc.World.Mode != "testing"
	var savedPrivacy [][2]bool
	res = append(res, `/Volumes/[^/]+/`)

	judge := func(how, q, got string) {
		if q == "" && got == "" {
			return
		}
		reMatch := false
		if privacy && privacyRe {
			for _, ex := range res {
				if re, err := regexp.Compile(ex); err == nil && re.MatchString(q) {
					reMatch = true
				}
			}
		}
		if strings.HasPrefix(q, "/Volumes/") {
			return // the built-in tilde rule; the statement does not say whether it is a mapping
		}
		for _, d := range order {
			if _, ok := maps[d]; ok && strings.HasSuffix(d, "/") && d != "/" && q == strings.TrimSuffix(d, "/") {
				return // "/opt/x" against the mapping "/opt/x/": the statement does not say; only "never panics" is demanded
			}
		}
		var prot []string
		if privacy {
			for _, d := range order {
				if _, ok := maps[d]; ok && under(q, d) {
					prot = append(prot, d)
				}
			}
		}
		relEquivalent := func() bool {
			if got == q {
				return true
			}
			if filepath.IsAbs(got) || got == "" || !filepath.IsAbs(q) {
				return false
			}
			return filepath.Clean(filepath.Join(cwd, got)) == filepath.Clean(q) && len(got) < len(q)
		}
		if len(prot) == 0 {
			if reMatch {
				return
			}
			if !relEquivalent() {
				out = append(out, orch.Violation{Rule: "C18.outside", Witness: "via=" + how,
					Detail: fmt.Sprintf("%s(%q) = %q: the path lies outside every mapping %v (home %q, cwd %q, privacy=%v) and must come back unchanged or as a shorter equivalent relative path", how, q, got, keysOf(maps, order), home, cwd, privacy)})
			}
			return
		}
		for _, d := range prot {
			dd := strings.TrimSuffix(d, "/")
			if dd == "" {
				dd = "/"
			}
			leaked := got == dd || strings.HasPrefix(got, dd+"/") || (dd == "/" && strings.HasPrefix(got, "/"))
			if leaked {
				out = append(out, orch.Violation{Rule: "C18.leak", Witness: "via=" + how,
					Detail: fmt.Sprintf("%s(%q) = %q still starts with the protected directory %q (mappings %v)", how, q, got, d, keysOf(maps, order))})
				return
			}
		}
		if len(prot) == 1 && !reMatch {
			d := prot[0]
			if len(d) > len(q) {
				return
			}
			want := maps[d] + q[len(d):]
			if strings.HasSuffix(d, "/") && d != "/" && (got == maps[d]+"/"+q[len(d):]) {
				return // "~u" + "/" + rest is as good as "~u" + rest for a key that ends in a slash
			}
			if d == "/" && got == maps[d]+q {
				return // "~" + "/home/x": equally a replacement of the prefix "/"
			}
			if got != want && !relEquivalent() {
				out = append(out, orch.Violation{Rule: "C18.shortform", Witness: "via=" + how,
					Detail: fmt.Sprintf("%s(%q) = %q: exactly one mapping applies (%q -> %q), so only that prefix is replaced: expected %q", how, q, got, d, maps[d], want)})
			}
		}
	}

	for i := range sc.Setup {
		op := &sc.Setup[i]
		o := ops[opKey("setup", 0, i+1)]
		if o == nil || o.Skipped {
			continue
		}
		if o.Panic != nil {
			out = append(out, orch.Violation{Rule: "C18.panic", Witness: "op=" + op.Op, Detail: fmt.Sprintf("%s(%q) panicked: %s", op.Op, op.Name, o.Panic.S)})
			continue
		}
		switch op.Op {
		case "add_path":
			put(expand(op.Name), op.Msg)
		case "remove_path":
			delete(maps, expand(op.Name))
		case "add_path_re":
			res = append(res, op.Name)
		case "remove_path_re":
			for k, ex := range res {
				if ex == op.Name {
					res = append(res[:k:k], res[k+1:]...)
					break
				}
			}
		case "add_flags", "remove_flags":
			for _, f := range op.S {
				switch f {
				case "Lprivacypath":
					privacy = op.Op == "add_flags"
				case "Lprivacypathregexp":
					privacyRe = op.Op == "add_flags"
				}
			}
		case "save_flags":
			// SaveFlagsAndMod(adding, removing...): additions first, then removals; the restore function brings both back
			savedPrivacy = append(savedPrivacy, [2]bool{privacy, privacyRe})
			for _, f := range op.S {
				switch f {
				case "Lprivacypath":
					privacy = true
				case "Lprivacypathregexp":
					privacyRe = true
				}
			}
			for _, f := range op.S {
				switch f {
				case "-Lprivacypath":
					privacy = false
				case "-Lprivacypathregexp":
					privacyRe = false
				}
			}
		case "restore_flags":
			if n := len(savedPrivacy); n > 0 {
				privacy, privacyRe = savedPrivacy[n-1][0], savedPrivacy[n-1][1]
				savedPrivacy = savedPrivacy[:n-1]
			}
		case "safety":
			var ret struct {
				Q, R string
			}
			if retInto(o, &ret) {
				judge("Safety", ret.Q, ret.R)
			}
		case "safety_files":
			var ret struct {
				Q, R []string
			}
			if retInto(o, &ret) {
				if len(ret.Q) != len(ret.R) {
					out = append(out, orch.Violation{Rule: "C18.files", Witness: "len", Detail: fmt.Sprintf("SafetyFiles of %d paths returned %d", len(ret.Q), len(ret.R))})
					continue
				}
				for k := range ret.Q {
					judge("SafetyFiles", ret.Q[k], ret.R[k])
				}
			}
		case "log":
			if len(o.Writes) != 1 {
				continue
			}
			text := stripSGR(o.Writes[0].P)
			file := ""
			if m := callerFileRe.FindStringSubmatch(text); m != nil {
				file = m[1] + m[2]
			} else if m := callerColorRe.FindStringSubmatch(text); m != nil {
				file = m[1]
			}
			if file != "" {
				judge("caller.file", filepath.Join(srcDirOf, "interp.go"), file)
			}
		}
	}
	return dedupe(out)
}

func keysOf(m map[string]string, order []string) []string {
	var ks []string
	for _, k := range order {
		if v, ok := m[k]; ok {
			ks = append(ks, k+"->"+v)
		}
	}
	return ks
}

func (p *C18) Classify(sc *scen.Scenario, run *orch.Run) (string, bool) {
	var sb strings.Builder
	sb.WriteString(sc.World.Home + "|" + sc.World.Cwd + "|" + sc.World.Mode)
	nmap := 2
	multi := false
	dirs := []string{sc.World.Home, sc.World.Cwd}
	for i := range sc.Setup {
		op := &sc.Setup[i]
		fmt.Fprintf(&sb, "%s:%s:%s:%v;", op.Op, op.Name, op.Msg, op.S)
		if op.Op == "add_path" {
			nmap++
			dirs = append(dirs, op.Name)
		}
		qs := op.S
		if op.Op == "safety" {
			qs = []string{op.Name}
		}
		if op.Op == "safety" || op.Op == "safety_files" {
			for _, q := range qs {
				n := 0
				for _, d := range dirs {
					if strings.HasPrefix(q, strings.TrimSuffix(d, "/")) && d != "" {
						n++
					}
				}
				if n >= 2 {
					multi = true
				}
			}
		}
	}
	order := 0
	if sc.Tapes != nil && len(sc.Tapes.Map) > 0 {
		order = sc.Tapes.Map[0]
	}
	unsorted := false
	if run.Result != nil {
		unsorted = run.Result.Stats["map.unsorted"] > 0
	}
	fmt.Fprintf(&sb, "order=%d", order)
	return fmt.Sprintf("%x", scen.HashString(sb.String())), multi && unsorted
}
