package props

import (
	"bytes"
	"fmt"
	"strings"

	"verif/internal/orch"
	"verif/internal/scen"
)

// C11 — output format is a per-logger three-state machine; getters and bytes agree.
type C11 struct{}

func (*C11) ID() string     { return "C11" }
func (*C11) Level() string  { return "exploration" }
func (*C11) Engine() string { return "HIST" }
func (*C11) Rule() string {
	return "enumeration of all sequences of length <= K (quick 3, thorough 4) of the 6 mode calls {SetJSONMode(), (true), (false), SetColorMode(), (true), (false)} over a parent and its child (12 choices per step), then seeded longer sequences (<=12 ops) that also use WithJSONMode/WithColorMode, repeated booleans and New(...) options over 2-4 loggers of one tree; getters of every logger after every op and the shape of a probe record per logger are compared with the 3-state model; distinct = the op sequence; non-trivial = one logger visits >= 2 formats while another logger exists"
}

var c11Choices = []struct {
	kind string
	b    []bool
}{
	{"json", nil}, {"json", []bool{true}}, {"json", []bool{false}},
	{"color", nil}, {"color", []bool{true}}, {"color", []bool{false}},
}

func c11Core(tier string) int {
	k := 3
	if tier == "thorough" {
		k = 4
	}
	n, p := 0, 1
	for i := 0; i <= k; i++ {
		n += p
		p *= 12
	}
	return n
}

func (*C11) Plan(tier string) orch.Plan {
	extra := 4000
	if tier == "thorough" {
		extra = 300000
	}
	return orch.Plan{Episodes: c11Core(tier) + extra, Batch: 150, Exhaustive: true,
		Assumptions: []string{"exhaustive: true refers to the enumerated core (all sequences of <= K mode calls over two loggers); the longer sequences are sampled"}}
}

func (p *C11) Gen(seed uint64, i int, tier string) *scen.Scenario {
	sc := &scen.Scenario{Property: "C11", Engine: "HIST", Seed: scen.Mix(seed, 111, uint64(i)) >> 12}
	sc.World.Snap = true
	sc.World.Clock = scen.Clock{TickNs: 1, MinStep: 40, MaxStep: 400}
	sc.Setup = append(sc.Setup,
		scen.Op{Op: "new_root", R: 1, Name: "p", Named: true, Opts: []scen.Op{{Kind: "writer", W: 1}, {Kind: "errwriter", W: 1}, {Kind: "level", Lvl: 8}}},
		scen.Op{Op: "new_child", L: 1, R: 2, Name: "c", Named: true, Opts: []scen.Op{{Kind: "writer", W: 2}, {Kind: "errwriter", W: 2}}},
	)
	loggers := []int{1, 2}
	core := c11Core(tier)
	if i < core {
		// decode i as a sequence: lengths 0..K
		k, p12, base := 0, 1, 0
		for i >= base+p12 {
			base += p12
			p12 *= 12
			k++
		}
		x := i - base
		for s := 0; s < k; s++ {
			c := x % 12
			x /= 12
			ch := c11Choices[c%6]
			sc.Setup = append(sc.Setup, scen.Op{Op: "set", L: 1 + c/6, Kind: ch.kind, B: ch.b})
		}
		sc.Note = "core"
	} else {
		r := scen.NewRng(scen.Mix(seed, scen.HashString("C11"), uint64(i)))
		if r.Chance(1, 8) {
			// the first logger writes through the library's own file destination to a regular file
			// (what it emits is read from the file after the episode)
			sc.World.FileDir = "auto"
			sc.Setup[0].Opts[0].WK, sc.Setup[0].Opts[1].WK = "libfile", "libfile"
			sc.Note = "libfile"
		}
		nextID := 3
		var named [][2]int // (parent, id) of the children made under a name of their own
		bools := func() []bool {
			switch r.Intn(5) {
			case 0:
				return nil
			case 1, 2:
				return []bool{r.Bool()}
			}
			b := r.Bool()
			out := make([]bool, r.Range(2, 3))
			for i := range out {
				out[i] = b
			}
			return out
		}
		n := r.Range(1, 12)
		for k := 0; k < n; k++ {
			kind := scen.Pick(r, []string{"json", "color"})
			l := scen.Pick(r, loggers)
			switch c := r.Intn(10); {
			case c < 6:
				sc.Setup = append(sc.Setup, scen.Op{Op: "set", L: l, Kind: kind, B: bools()})
				if r.Chance(1, 2) {
					// a record between mode calls: whatever a logger keeps from a record it has printed
					// must not survive the next change of its format
					t := tok(100 + k)
					sc.Setup = append(sc.Setup, scen.Op{Op: "log", L: scen.Pick(r, []int{l, scen.Pick(r, loggers)}), Entry: scen.Pick(r, []string{"Print", "Info", "Warn"}), Lvl: 4,
						Msg: "probe" + t, Tok: t, Probe: true, Args: []scen.Arg{{K: "key", S: "a"}, {K: "i", I: 1}}})
				}
			case c < 8 && len(loggers) < 4:
				sc.Setup = append(sc.Setup, scen.Op{Op: "with", L: l, R: nextID, Kind: kind, B: bools()},
					scen.Op{Op: "set", L: nextID, Kind: "writer", W: nextID}, scen.Op{Op: "set", L: nextID, Kind: "errwriter", W: nextID})
				loggers = append(loggers, nextID)
				nextID++
			case len(loggers) < 4:
				op := scen.Op{Op: "new_child", L: l, R: nextID, Name: fmt.Sprintf("n%d", nextID), Named: true,
					Opts: []scen.Op{{Kind: "writer", W: nextID}, {Kind: "errwriter", W: nextID}}}
				for q := r.Intn(3); q > 0; q-- {
					op.Opts = append(op.Opts, scen.Op{Kind: scen.Pick(r, []string{"json", "color"}), B: bools()})
				}
				if r.Chance(1, 3) {
					// New(name, "k", v, Attr..., options...): options are allowed anywhere after the name
					op.Args = []scen.Arg{{K: "key", S: "ka"}, {K: "i", I: 1}, {K: "attr", Key: "kb", Items: []scen.Arg{{K: "i", I: 2}}}}
					op.Kind = scen.Pick(r, []string{"args_first", "interleaved"})
				} else if r.Chance(1, 3) {
					// parent.New(options...): no name at all, an option is the first argument; the options in any order
					op.Name, op.Named = "", false
					for q := len(op.Opts) - 1; q > 0; q-- {
						j := r.Intn(q + 1)
						op.Opts[q], op.Opts[j] = op.Opts[j], op.Opts[q]
					}
				}
				sc.Setup = append(sc.Setup, op)
				if op.Named {
					named = append(named, [2]int{l, nextID})
				}
				loggers = append(loggers, nextID)
				nextID++
			default:
				sc.Setup = append(sc.Setup, scen.Op{Op: "set", L: l, Kind: kind, B: bools()})
			}
			if len(named) > 0 && r.Chance(1, 5) {
				// a child is looked up again under its name, with something that is no mode call (a level option,
				// attributes): whether such extras are applied to the existing child is not C11's business, its
				// format is - and that was decided by its own most recent mode call
				c := scen.Pick(r, named)
				op := scen.Op{Op: "new_child", L: c[0], R: 90 + k, Name: fmt.Sprintf("n%d", c[1]), Named: true}
				switch r.Intn(3) {
				case 0:
					op.Opts = []scen.Op{{Kind: "level", Lvl: 8}}
				case 1:
					op.Args = []scen.Arg{{K: "key", S: "kz"}, {K: "i", I: 3}}
				}
				sc.Setup = append(sc.Setup, op)
			}
		}
	}
	for k, l := range loggers {
		t := tok(k + 1)
		sc.Setup = append(sc.Setup, scen.Op{Op: "log", L: l, Entry: "Print", Msg: "probe" + t, Tok: t, Probe: true,
			Args: []scen.Arg{{K: "key", S: "a"}, {K: "i", I: 1}}})
	}
	return sc
}

const (
	fmtColor = iota
	fmtJSON
	fmtLogfmt
)

var fmtNames = []string{"colored", "json", "logfmt"}

func fmtApply(state int, kind string, b []bool) int {
	mode := true
	if len(b) > 0 {
		mode = b[len(b)-1]
	}
	switch kind {
	case "json":
		if mode {
			return fmtJSON
		}
		if state == fmtJSON {
			return fmtLogfmt
		}
		return state
	case "color":
		if mode {
			return fmtColor
		}
		return fmtLogfmt
	}
	return state
}

// classifyShape names the format a payload looks like (for messages and case signatures; multi-line
// messages and error dumps of testing-mode worlds are allowed for).
func classifyShape(p []byte) int {
	switch {
	case bytes.Contains(p, []byte("\x1b[")):
		return fmtColor
	case len(p) > 2 && p[0] == '{' && bytes.HasSuffix(p, []byte("}\n")):
		return fmtJSON
	case bytes.HasPrefix(p, []byte("time=")):
		return fmtLogfmt
	}
	return -1
}

// strictShape is classifyShape for C11's single-line probes: a logfmt record must be a
// well-formed line of key=value pairs from beginning to end.
func strictShape(p []byte) int {
	s := classifyShape(p)
	if s == fmtLogfmt && !logfmtLine(p) {
		return -1
	}
	return s
}

// logfmtLine: one line of space-separated key=value pairs (values may be double-quoted with
// backslash escapes); a piece of another format in the middle of the line does not pass.
func logfmtLine(p []byte) bool {
	s := strings.TrimSuffix(string(p), "\n")
	if strings.ContainsAny(s, "\n\r") {
		return false
	}
	i := 0
	for i < len(s) {
		for i < len(s) && s[i] == ' ' {
			i++
		}
		if i >= len(s) {
			break
		}
		// key
		k := i
		for i < len(s) && s[i] != '=' && s[i] != ' ' && s[i] != '"' {
			i++
		}
		if i == k || i >= len(s) || s[i] != '=' {
			return false
		}
		i++
		// value
		if i < len(s) && s[i] == '"' {
			i++
			for i < len(s) && s[i] != '"' {
				if s[i] == '\\' {
					i++
				}
				i++
			}
			if i >= len(s) {
				return false
			}
			i++
			if i < len(s) && s[i] != ' ' {
				return false
			}
		} else {
			for i < len(s) && s[i] != ' ' {
				if s[i] == '"' {
					return false
				}
				i++
			}
		}
	}
	return true
}

func callName(op *scen.Op) string {
	verb := "Set"
	if op.Op == "with" {
		verb = "With"
	} else if op.Op != "set" {
		verb = "New+"
	}
	k := "JSONMode"
	if op.Kind == "color" {
		k = "ColorMode"
	}
	arg := "()"
	if len(op.B) > 0 {
		arg = fmt.Sprintf("(%v)", op.B[len(op.B)-1])
	}
	return verb + k + arg
}

func (p *C11) Check(sc *scen.Scenario, run *orch.Run, env *orch.Env) []orch.Violation {
	var out []orch.Violation
	if worldDied(run) {
		return []orch.Violation{{Rule: "C11.terminated", Witness: "world", Detail: fmt.Sprintf("world ended early exit=%d stderr=%.200q", run.ExitCode, lastLines(run.Stderr, 200))}}
	}
	ops := indexOps(run)
	state := map[int]int{}
	for i := range sc.Setup {
		op := &sc.Setup[i]
		o := ops[opKey("setup", 0, i+1)]
		if o == nil {
			continue
		}
		if o.Panic != nil {
			out = append(out, orch.Violation{Rule: "C11.panic", Witness: op.Op + "/" + op.Kind, Detail: "panicked: " + o.Panic.S})
			continue
		}
		from := -1
		target := -1
		switch op.Op {
		case "new_root":
			st := fmtColor
			for _, o2 := range op.Opts {
				st = fmtApply(st, o2.Kind, o2.B)
			}
			state[op.R] = st
			target = op.R
		case "new_child":
			ps, ok := state[op.L]
			if !ok || o.Skipped {
				continue
			}
			var ret struct {
				ID  int  `json:"id"`
				New bool `json:"new"`
			}
			if !retInto(o, &ret) {
				continue
			}
			if !ret.New {
				// New(name, ...) found an existing child. Whether mode options that come with the name are applied
				// to it is not said (then its state is not known any more); anything else leaves its format alone
				// (the model keeps it as it was, the getter comparison below reports a change)
				for _, o2 := range op.Opts {
					if o2.Kind == "json" || o2.Kind == "color" {
						delete(state, ret.ID)
					}
				}
				break
			}
			st := ps
			for _, o2 := range op.Opts {
				st = fmtApply(st, o2.Kind, o2.B)
			}
			state[ret.ID] = st
			target = ret.ID
		case "with":
			ps, ok := state[op.L]
			if !ok || o.Skipped {
				continue
			}
			var ret struct {
				ID  int  `json:"id"`
				New bool `json:"new"`
			}
			if !retInto(o, &ret) {
				continue
			}
			if !ret.New {
				// that a With call must create a logger is C10's business; here: the existing logger it
				// returned instead must not have changed its format because of this call on another logger
				// (the model keeps it as it was, the getter comparison below reports the change)
				break
			}
			from = ps
			state[ret.ID] = fmtApply(ps, op.Kind, op.B)
			target = ret.ID
		case "set":
			st, ok := state[op.L]
			if !ok || o.Skipped {
				continue
			}
			if op.Kind == "json" || op.Kind == "color" {
				from = st
				state[op.L] = fmtApply(st, op.Kind, op.B)
				target = op.L
			}
		case "log":
			st, ok := state[op.L]
			if !ok || !op.Probe || o.Skipped {
				continue
			}
			var payload []byte
			if sc.Note == "libfile" && op.L == 1 {
				// the record went to a regular file through slog.NewFileWriter: find it there
				n := 0
				for _, ln := range bytes.SplitAfter(run.Files["lf1.log"], []byte("\n")) {
					if bytes.Contains(ln, []byte(op.Tok)) {
						payload = ln
						n++
					}
				}
				if n != 1 {
					out = append(out, orch.Violation{Rule: "C11.probe", Witness: "count file", Detail: fmt.Sprintf("probe %s on logger %d is found %d times in its log file", op.Tok, op.L, n)})
					continue
				}
			} else {
				if len(o.Writes) != 1 {
					out = append(out, orch.Violation{Rule: "C11.probe", Witness: "count", Detail: fmt.Sprintf("probe on logger %d produced %d writes", op.L, len(o.Writes))})
					continue
				}
				payload = o.Writes[0].P
			}
			shape := strictShape(payload)
			if shape != st {
				sh := "unrecognised"
				if shape >= 0 {
					sh = fmtNames[shape]
				}
				out = append(out, orch.Violation{Rule: "C11.shape", Witness: "model=" + fmtNames[st] + " bytes=" + sh,
					Detail: fmt.Sprintf("logger %d is in %s format by its call history but its record looks %s: %.120q", op.L, fmtNames[st], sh, payload)})
			}
			continue
		}
		// getters of every logger after the op
		snap := snapOf(o.Snap)
		for id, st := range state {
			s, ok := snap[id]
			if !ok {
				continue
			}
			wantJ, wantC := st == fmtJSON, st == fmtColor
			if s.JSON != wantJ || s.Color != wantC {
				w := "other-logger"
				if id == target {
					w = "call=" + callName(op)
					if from >= 0 {
						w += " from=" + fmtNames[from]
					}
				}
				out = append(out, orch.Violation{Rule: "C11.getters", Witness: w,
					Detail: fmt.Sprintf("after setup[%d] %s on logger %d: logger %d has JSONMode()=%v ColorMode()=%v, the model says %s", i, callName(op), op.L, id, s.JSON, s.Color, fmtNames[st])})
				state[id] = map[bool]int{true: fmtJSON, false: map[bool]int{true: fmtColor, false: fmtLogfmt}[s.Color]}[s.JSON] // resync to avoid cascades
			}
		}
	}
	return dedupe(out)
}

func (p *C11) Classify(sc *scen.Scenario, run *orch.Run) (string, bool) {
	var sb strings.Builder
	visited := map[int]map[string]bool{}
	nLoggers := 0
	for i := range sc.Setup {
		op := &sc.Setup[i]
		switch op.Op {
		case "new_root", "new_child", "with":
			nLoggers++
		}
		if op.Op == "log" {
			continue
		}
		fmt.Fprintf(&sb, "%s:%d:%s:%v;", op.Op, op.L, op.Kind, op.B)
		for _, o := range op.Opts {
			fmt.Fprintf(&sb, "o:%s:%v;", o.Kind, o.B)
		}
		if op.Op == "set" && (op.Kind == "json" || op.Kind == "color") {
			if visited[op.L] == nil {
				visited[op.L] = map[string]bool{}
			}
			visited[op.L][op.Kind+fmt.Sprint(len(op.B) == 0 || op.B[len(op.B)-1])] = true
		}
	}
	nt := false
	for _, v := range visited {
		if len(v) >= 2 {
			nt = true
		}
	}
	return fmt.Sprintf("%x", scen.HashString(sb.String())), nt && nLoggers >= 2
}
