package props

import (
	"fmt"
	"strings"

	"verif/internal/model"
	"verif/internal/orch"
	"verif/internal/scen"
)

// C02 — exactly-once delivery: each admitted call is one whole Write, for any arguments.
type C02 struct{}

func (*C02) ID() string     { return "C02" }
func (*C02) Level() string  { return "exploration" }
func (*C02) Engine() string { return "HIST+CONC" }
func (*C02) Rule() string {
	return "seeded calls of every non-terminating severity through every entry point with generated argument lists (string keys with values of every Go kind incl. nil, all numeric widths, NaN/Inf, arbitrary byte strings, []byte, time, duration, error, Stringer, struct, map, func, chan, pointers; dangling key; non-string in key position; Attr, Attrs, []Attr with nil elements; groups nested to depth 6, empty groups, empty keys; Println with a non-string first argument; blank messages), 3 formats x random flags x random logger level x 1-3 destinations per class; the pool tape recycles buffers between calls; the I/O history per destination during each call is the observable; distinct = (argument-shape signature, format, entry, admitted); non-trivial = at least one non-scalar or malformed argument"
}

func (*C02) Plan(tier string) orch.Plan {
	n := 6000
	if tier == "thorough" {
		n = 400000
	}
	return orch.Plan{Episodes: n, Batch: 1}
}

type c02Gen struct {
	r     *scen.Rng
	relog int // > 0: id of the logger that values logging from inside String() use; 0: no such values
	nrl   int
}

// c02NestedLogger / c02NestedWriter: the logger and destination of records issued from inside a
// value's String method (kept apart from every other logger's destinations)
const c02NestedLogger, c02NestedWriter = 90, 90

func (g *c02Gen) bytesStr() string { return string(g.raw()) }

func (g *c02Gen) raw() []byte {
	n := g.r.Intn(24)
	b := make([]byte, n)
	for i := range b {
		switch g.r.Intn(6) {
		case 0:
			b[i] = byte(g.r.Intn(256))
		case 1:
			b[i] = scen.Pick(g.r, []byte{'"', '\\', '\n', '\r', '\t', 0, 0x1b, '<', '>', '&', '=', ' ', '{', '}', ',', ':'})
		default:
			b[i] = byte('a' + g.r.Intn(26))
		}
	}
	return b
}

func (g *c02Gen) scalar() scen.Arg {
	r := g.r
	if g.relog > 0 && r.Chance(1, 40) {
		g.nrl++
		return scen.Arg{K: "relog", I: int64(g.relog), S: tok(50000 + g.nrl)}
	}
	if r.Chance(1, 30) {
		return scen.Arg{K: "ustruct", I: int64(r.Intn(1000)), S: "h"}
	}
	switch r.Intn(34) {
	case 0:
		return scen.Arg{K: "nil"}
	case 1:
		return scen.Arg{K: "i", I: r.I64()}
	case 2:
		return scen.Arg{K: "i8", I: int64(r.Intn(256) - 128)}
	case 3:
		return scen.Arg{K: "i16", I: int64(r.Intn(65536) - 32768)}
	case 4:
		return scen.Arg{K: "i32", I: int64(int32(r.U64()))}
	case 5:
		return scen.Arg{K: "i64", I: r.I64()}
	case 6:
		return scen.Arg{K: "u", I: r.I64()}
	case 7:
		return scen.Arg{K: "u8", I: int64(r.Intn(256))}
	case 8:
		return scen.Arg{K: "u16", I: int64(r.Intn(65536))}
	case 9:
		return scen.Arg{K: "u32", I: int64(uint32(r.U64()))}
	case 10:
		return scen.Arg{K: "u64", I: r.I64()}
	case 11:
		return scen.Arg{K: "f", F: float64(r.I64()) / 1e6}
	case 12:
		return scen.Arg{K: "f32", F: float64(r.Intn(100000)) / 7}
	case 13:
		return scen.Arg{K: "nan"}
	case 14:
		return scen.Arg{K: "inf", B: r.Bool()}
	case 15:
		return scen.Arg{K: "c128", F: 1.5, I: int64(r.Intn(10))}
	case 16:
		return scen.Arg{K: "c64", F: 2.5, I: int64(r.Intn(10))}
	case 17:
		return scen.Arg{K: "b", B: r.Bool()}
	case 18:
		return scen.Arg{K: "s", X: g.raw()}
	case 19:
		return scen.Arg{K: "bytes", X: g.raw()}
	case 20:
		return scen.Arg{K: "dur", I: r.I64()}
	case 21:
		return scen.Arg{K: "time", I: int64(r.Intn(2000000000))}
	case 22:
		return scen.Arg{K: "err", X: g.raw()}
	case 23:
		return scen.Arg{K: "nilerr"}
	case 24:
		return scen.Arg{K: "stringer", X: g.raw()}
	case 25:
		return scen.Arg{K: "struct", I: int64(r.Intn(100)), S: g.bytesStr()}
	case 26:
		return scen.Arg{K: "pstruct", I: int64(r.Intn(100)), S: "p"}
	case 27:
		return scen.Arg{K: "map", Items: []scen.Arg{{S: "a", I: 1}, {S: g.bytesStr(), I: 2}}}
	case 28:
		return scen.Arg{K: "func"}
	case 29:
		return scen.Arg{K: "chan"}
	case 30:
		return scen.Arg{K: scen.Pick(r, []string{"ptr", "nilptr"}), I: 5}
	case 31:
		return scen.Arg{K: scen.Pick(r, []string{"ints", "strs", "bools", "floats", "durs", "times"}), Items: []scen.Arg{{I: 1, S: g.bytesStr(), B: true, F: 0.5}, {I: -2, S: "", F: -1}}}
	case 32:
		return scen.Arg{K: "level", I: int64(r.Intn(14))}
	default:
		return scen.Arg{K: "anys", Items: []scen.Arg{{K: "i", I: 1}, {K: "s", S: "x"}, {K: "nil"}}}
	}
}

func (g *c02Gen) keyText() string {
	switch g.r.Intn(8) {
	case 0:
		return ""
	case 1:
		return g.bytesStr()
	case 2:
		return scen.Pick(g.r, []string{"time", "level", "msg", "caller", "logger"})
	default:
		return fmt.Sprintf("k%d", g.r.Intn(12))
	}
}

func (g *c02Gen) group(depth int) scen.Arg {
	a := scen.Arg{K: scen.Pick(g.r, []string{"group", "group", "egroup", "ggroup"}), Key: g.keyText()}
	if g.r.Chance(1, 5) {
		return a // empty group
	}
	n := g.r.Range(1, 4)
	for i := 0; i < n; i++ {
		if a.K == "ggroup" {
			a.Items = append(a.Items, g.attrArg(depth+1))
		} else {
			a.Items = append(a.Items, g.list(1, depth+1)...)
		}
	}
	return a
}

func (g *c02Gen) attrArg(depth int) scen.Arg {
	if depth < 6 && g.r.Chance(1, 4) {
		return g.group(depth)
	}
	if g.r.Chance(1, 12) {
		return scen.Arg{K: "nilattr"}
	}
	return scen.Arg{K: scen.Pick(g.r, []string{"attr", "attr", "typed"}), Key: g.keyText(), Items: []scen.Arg{g.scalar()}}
}

// list builds n elements of a free-form list (well-formed and malformed ones).
func (g *c02Gen) list(n, depth int) []scen.Arg {
	var out []scen.Arg
	for k := 0; k < n; k++ {
		switch c := g.r.Intn(20); {
		case c < 8:
			out = append(out, scen.Arg{K: "key", S: g.keyText()}, g.scalar())
		case c < 11:
			out = append(out, g.attrArg(depth))
		case c < 12:
			out = append(out, scen.Arg{K: "key", S: g.keyText()}) // dangling key (or key key value)
		case c < 14:
			out = append(out, g.scalar()) // non-string in key position
		case c < 16 && depth < 6:
			out = append(out, g.group(depth))
		case c < 18:
			var items []scen.Arg
			for q := g.r.Intn(4); q > 0; q-- {
				items = append(items, g.attrArg(depth))
			}
			out = append(out, scen.Arg{K: scen.Pick(g.r, []string{"attrs", "attrslice", "attrslice"}), Items: items})
		case c < 19:
			out = append(out, scen.Arg{K: "newattrs", Items: g.list(2, depth+1)})
		default:
			out = append(out, scen.Arg{K: "key", S: g.keyText()}, g.attrArg(depth)) // an Attr in value position
		}
	}
	return out
}

var c02Sevs = []int{model.Error, model.Warn, model.Info, model.Debug, model.Trace, model.Always, model.OK, model.Success, model.Fail}

func (p *C02) Gen(seed uint64, i int, tier string) *scen.Scenario {
	r := scen.NewRng(scen.Mix(seed, scen.HashString("C02"), uint64(i)))
	g := &c02Gen{r: r}
	sc := &scen.Scenario{Property: "C02", Engine: "HIST", Seed: scen.Mix(seed, 102, uint64(i)) >> 12}
	sc.World.Isolated = true
	sc.World.Mode = scen.Pick(r, []string{"production", "testing"})
	sc.World.Flags = []string{"LnoInterrupt"}
	for _, f := range []string{"Ldate", "LattrsR", "Lcallerpackagename"} {
		if r.Chance(1, 3) {
			sc.World.Flags = append(sc.World.Flags, f)
		}
	}
	for _, f := range []string{"Lcaller", "LlocalTime", "Lmicroseconds", "Lprivacypath"} {
		if r.Chance(1, 3) {
			sc.World.NoFlags = append(sc.World.NoFlags, f)
		}
	}
	sc.World.Clock = scen.Clock{TickNs: 1, MinStep: 40, MaxStep: 4000}
	if r.Chance(1, 3) {
		// values that log from inside their String method (a record within a record): their own logger and destination
		g.relog = c02NestedLogger
		op := scen.Op{Op: "new_root", R: c02NestedLogger, Name: "nested", Named: true, Opts: []scen.Op{{Kind: "writer", W: c02NestedWriter, WK: "plain"}, {Kind: "errwriter", W: c02NestedWriter, WK: "plain"}, {Kind: "level", Lvl: model.Always}}}
		switch r.Intn(3) {
		case 0:
			op.Opts = append(op.Opts, scen.Op{Kind: "json", B: []bool{true}})
		case 1:
			op.Opts = append(op.Opts, scen.Op{Kind: "color", B: []bool{false}})
		}
		sc.Setup = append(sc.Setup, op)
	}
	// 1-2 loggers (root, maybe a child), each with 1-3 destinations per class
	nextW := 1
	mk := func(id, parent int) {
		op := scen.Op{Op: "new_root", R: id, Name: fmt.Sprintf("l%d", id), Named: true}
		if parent > 0 {
			op = scen.Op{Op: "new_child", L: parent, R: id, Name: fmt.Sprintf("l%d", id), Named: true}
		}
		for _, class := range []string{"writer", "errwriter"} {
			op.Opts = append(op.Opts, scen.Op{Kind: class, W: nextW, WK: scen.Pick(r, []string{"plain", "logwriter", "levelsettable"})})
			nextW++
			for k := r.Intn(3); k > 0; k-- {
				op.Opts = append(op.Opts, scen.Op{Kind: "add_" + class, W: nextW, WK: "plain"})
				nextW++
			}
		}
		if r.Chance(1, 3) {
			op.Opts = append(op.Opts, scen.Op{Kind: "add_level_writer", Lvl: scen.Pick(r, c02Sevs), W: nextW, WK: "plain"})
			nextW++
		}
		op.Opts = append(op.Opts, scen.Op{Kind: "level", Lvl: scen.Pick(r, []int{model.Error, model.Warn, model.Info, model.Trace, model.Always, model.Always, model.Off})})
		switch r.Intn(3) {
		case 0:
			op.Opts = append(op.Opts, scen.Op{Kind: "json", B: []bool{true}})
		case 1:
			op.Opts = append(op.Opts, scen.Op{Kind: "color", B: []bool{false}})
		}
		if r.Chance(1, 3) {
			op.Opts = append(op.Opts, scen.Op{Kind: "args", Args: g.list(r.Range(1, 3), 1)})
		}
		sc.Setup = append(sc.Setup, op)
	}
	mk(1, 0)
	loggers := []int{1}
	if r.Chance(1, 2) {
		// the default logger with the package-level functions
		sc.Setup = append(sc.Setup, opSetWriter(0, nextW, "plain"), opSetErrWriter(0, nextW+1, "plain"),
			scen.Op{Op: "set", L: 0, Kind: "level", Lvl: scen.Pick(r, []int{model.Warn, model.Info, model.Trace, model.Always})})
		nextW += 2
		loggers = append(loggers, 0)
	}
	if r.Bool() {
		mk(2, 1)
		loggers = append(loggers, 2)
	}
	var customs []int
	for k := r.Intn(3); k > 0; k-- {
		v := r.Range(13, 60)
		dup := false
		for _, c := range customs {
			dup = dup || c == v
		}
		if dup {
			continue
		}
		reg := scen.Op{Op: "register_level", Lvl: v, Name: fmt.Sprintf("cust%d", v)}
		if r.Bool() {
			reg.Opts = append(reg.Opts, scen.Op{Kind: "treat_as", Lvl: scen.Pick(r, []int{model.Error, model.Warn, model.Info, model.Debug})})
		}
		switch r.Intn(4) {
		case 0:
			reg.Opts = append(reg.Opts, scen.Op{Kind: "color", I: int64(r.Range(30, 37))}) // foreground only
		case 1:
			reg.Opts = append(reg.Opts, scen.Op{Kind: "color", I: int64(r.Range(30, 37)), J: 5})
		}
		if r.Chance(1, 3) {
			reg.Opts = append(reg.Opts, scen.Op{Kind: "errdev", B: []bool{true}})
		}
		if r.Chance(1, 3) {
			reg.Opts = append(reg.Opts, scen.Op{Kind: "tags", S: []string{"", "c", "", "cst", "", "custm"}})
		}
		sc.Setup = append(sc.Setup, reg)
		customs = append(customs, v)
	}
	sc.Setup = append(sc.Setup, scen.Op{Op: "set_debug_mode", B: []bool{false}}, scen.Op{Op: "get_debug_mode"}, scen.Op{Op: "snap"})
	var calls []scen.Op
	n := r.Range(4, 20)
	// crowd episodes: 4-8 caller tasks, all on one logger, with destinations that take their time - many calls of one
	// logger in flight at once (what a hand-over or batching scheme between callers needs to go wrong)
	crowd := scen.Mix(seed, 1002, uint64(i))%8 == 0
	crowdL := loggers[int(scen.Mix(seed, 1003, uint64(i))%uint64(len(loggers)))]
	if crowd {
		n = 12 + int(scen.Mix(seed, 1004, uint64(i))%20)
	}
	bigBase := 0 // > 0: an episode with records far beyond the initial buffer size
	if r.Chance(1, 10) {
		bigBase = scen.Pick(r, []int{1100, 4200, 9000, 17000, 34000, 70000, 140000})
	}
	for k := 0; k < n; k++ {
		sev := scen.Pick(r, c02Sevs)
		t := tok(k + 1)
		l := scen.Pick(r, loggers)
		if crowd {
			l = crowdL
		}
		var entry string
		name := sevEntryName[sev]
		pick := r.Intn(7)
		if len(customs) > 0 && r.Chance(1, 4) {
			sev = scen.Pick(r, customs) // a registered custom severity: only the level-parameter entry points carry it
			pick = 2 + r.Intn(2)
		}
		switch pick {
		case 6:
			entry = name
			switch sev {
			case model.Info:
				entry = "Infof"
			case model.Warn:
				entry = "Warnf"
			case model.Error:
				entry = "Errorf"
			}
		case 0:
			entry = name
		case 1:
			entry = name + "Context"
		case 2:
			entry = "LogAttrs"
		case 3:
			entry = "Logit"
		default:
			entry = name
			if sev == model.Always && r.Bool() {
				entry = scen.Pick(r, []string{"Println", "PrintlnContext"})
			}
		}
		if l == 0 && entry != "LogAttrs" && entry != "Logit" && !strings.HasSuffix(entry, "f") && r.Bool() {
			entry = "pkg." + entry
		}
		op := scen.Op{Op: "log", L: l, Entry: entry, Lvl: sev, Tok: t}
		// message: arbitrary bytes around the token, or blank
		switch r.Intn(8) {
		case 0:
			op.Msg = scen.Pick(r, []string{"", " ", "\n", "\t \r\n", "   \n\n"})
			op.Kind = "blank"
		case 1:
			op.X = append(append(g.raw(), t...), g.raw()...)
			op.Msg = "raw" + t
		case 2:
			op.Msg = "line1 " + t + "\nline2 " + t + "\nline3 " + t + scen.Pick(r, []string{"", "\n"})
		default:
			op.Msg = "m" + t
		}
		if bigBase > 0 && op.Kind == "" && r.Chance(1, 2) {
			// a long record; within one episode the sizes mostly grow inside one power-of-two class,
			// sometimes they shrink or jump to the next class
			op.J = int64(bigBase)
			switch r.Intn(6) {
			case 0:
				bigBase = bigBase * 2 / 3
			case 1:
				bigBase = bigBase*2 + r.Range(1, 500)
			default:
				bigBase += r.Range(500, bigBase/3)
			}
		}
		nargs := 0
		switch r.Intn(5) {
		case 0:
		case 1:
			nargs = r.Range(13, 64)
			if r.Chance(1, 10) {
				nargs = scen.Pick(r, []int{120, 130, 600, 1030, 1600}) // around and beyond the pooled slice's size thresholds
			}
		default:
			nargs = r.Range(1, 8)
		}
		op.Args = g.list(nargs, 1)
		if h := scen.Mix(seed, 1015, uint64(i), uint64(k)); h%10 == 0 {
			// the record's last attribute (its key sorts behind the generated ones) is a value the encoders copy as
			// it is, ending in a line break: whatever decides "is the record terminated" must not look at the value
			op.Args = append(op.Args, scen.Arg{K: "key", S: "zzlast"}, scen.Arg{K: "bytes", X: [][]byte{[]byte("tail\n"), []byte("\n"), []byte("a\nb\n"), []byte("x\r\n")}[(h/10)%4]})
		}
		if strings.HasSuffix(entry, "Println") && r.Chance(1, 3) {
			// first element is the message position: sometimes not a string
			op.Kind = "rawargs"
			op.Args = append([]scen.Arg{g.scalar()}, op.Args...)
			op.Msg = ""
		}
		if strings.HasSuffix(entry, "Context") || entry == "LogAttrs" || entry == "Logit" {
			if r.Chance(1, 6) {
				op.Ctx = &scen.CtxSpec{Nil: true}
			}
		}
		calls = append(calls, op)
	}
	if (r.Chance(1, 4) || crowd) && len(calls) >= 2 {
		// the same calls from 2-3 concurrent caller tasks (CONC engine): the per-call I/O history must not change
		G := r.Range(2, 3)
		if crowd {
			G = r.Range(4, 10)
			for k := r.Range(3, 10); k > 0; k-- {
				sc.Faults = append(sc.Faults, scen.Fault{W: -1, Attempt: r.Intn(n), Kind: "stall", N: r.Range(1, 8)})
			}
		}
		sc.Engine = "CONC"
		sc.Sched = scen.SchedCfg{StayPermille: r.Range(300, 950)}
		if crowd && r.Bool() {
			sc.Sched.StayPermille = r.Range(100, 500) // callers take turns often
		}
		for t := 1; t <= G; t++ {
			sc.Tasks = append(sc.Tasks, scen.Task{ID: t})
		}
		for k, c := range calls {
			// yielding variants of error/stringer values give preemption points inside the record
			for q := range c.Args {
				if c.Args[q].K == "err" || c.Args[q].K == "stringer" {
					c.Args[q].Y = true
				}
			}
			sc.Tasks[k%G].Ops = append(sc.Tasks[k%G].Ops, c)
		}
	} else {
		sc.Setup = append(sc.Setup, calls...)
	}
	return sc
}

// relogTokens: the tokens of all values in the scenario that log from inside their String method;
// nil when one of them is malformed (no token, another logger than the dedicated one).
func relogTokens(sc *scen.Scenario) map[string]bool {
	toks := map[string]bool{}
	bad := false
	var walk func(as []scen.Arg)
	walk = func(as []scen.Arg) {
		for k := range as {
			if as[k].K == "relog" {
				if as[k].I != c02NestedLogger || !tokRe.MatchString(as[k].S) || len(as[k].S) < 8 {
					bad = true
				}
				toks[as[k].S] = true
			}
			walk(as[k].Items)
		}
	}
	var ops func(l []scen.Op)
	ops = func(l []scen.Op) {
		for i := range l {
			walk(l[i].Args)
			ops(l[i].Opts)
			if l[i].Ctx != nil {
				for _, cv := range l[i].Ctx.Vals {
					walk([]scen.Arg{cv.V})
				}
			}
		}
	}
	ops(sc.Setup)
	ops(sc.Tail)
	for _, t := range sc.Tasks {
		ops(t.Ops)
	}
	if bad {
		return nil
	}
	return toks
}

// WellFormed: the statement is about calls of non-terminating severity.
func (p *C02) WellFormed(sc *scen.Scenario) bool {
	if relogTokens(sc) == nil {
		return false
	}
	ok := false
	for _, f := range sc.World.Flags {
		if f == "LnoInterrupt" {
			ok = true
		}
	}
	if !ok {
		return false
	}
	// every destination a call may select is one the world records: the process's own stdout/stderr are not
	wsAll := model.WritersFromHistory(sc.Setup, len(sc.Setup))
	chk := func(ops []scen.Op) bool {
		for i := range ops {
			if ops[i].Op != "log" {
				continue
			}
			if ops[i].Lvl == model.Panic || ops[i].Lvl == model.Fatal {
				return false
			}
			ws := wsAll[ops[i].L]
			if ws == nil {
				return false
			}
			for _, w := range append(append([]int{}, ws.Normal...), ws.Error...) {
				if w < 0 {
					return false
				}
			}
		}
		return true
	}
	if !chk(sc.Setup) {
		return false
	}
	for _, t := range sc.Tasks {
		if !chk(t.Ops) {
			return false
		}
	}
	return true
}

func isBlank(s string) bool { return strings.Trim(s, "\n\r \t") == "" }

func argShape(as []scen.Arg, depth int) string {
	var sb strings.Builder
	for i := range as {
		a := &as[i]
		sb.WriteString(a.K)
		if len(a.Items) > 0 && depth < 3 {
			sb.WriteString("(" + argShape(a.Items, depth+1) + ")")
		}
		sb.WriteByte(',')
	}
	return sb.String()
}

func (p *C02) Check(sc *scen.Scenario, run *orch.Run, env *orch.Env) []orch.Violation {
	var out []orch.Violation
	add := func(rule, witness, format string, a ...any) {
		out = append(out, orch.Violation{Rule: rule, Witness: witness, Detail: fmt.Sprintf(format, a...)})
	}
	ops := indexOps(run)
	reg := registryFromHistory(sc, ops, -1)
	debug := false
	var snap map[int]snapLogger
	setupLen := len(sc.Setup)
	nestedToks := relogTokens(sc) // values that log from inside String() may sit in call arguments or in logger attributes
	// Which goroutine hands a record to the destination is not part of the statement: a logger may let the caller
	// that is writing anyway take along the records other callers finished meanwhile. With several caller tasks the
	// writes are therefore attributed to calls by the call token their payload carries, wherever they were observed;
	// payloads that name no call (blank lines, Println of a non-string) are matched to the calls that expect one.
	attributed := map[string][]scen.Event{}
	checkCall := func(ph string, task, i int, op *scen.Op) {
		o := ops[opKey(ph, task, i+1)]
		if o == nil || o.Skipped {
			return
		}
		if ws, ok := attributed[opKey(ph, task, i+1)]; ok {
			c := *o
			c.Writes = ws
			o = &c
		}
		switch op.Op {
		case "get_debug_mode":
			var ret struct {
				Debug bool `json:"debug"`
			}
			if retInto(o, &ret) {
				debug = ret.Debug
			}
			return
		case "snap":
			snap = snapOf(o.Snap)
			return
		case "log":
		default:
			if o.Panic != nil {
				add("C02.panic", "op="+op.Op, "%s[%d] %s panicked: %s", ph, i, op.Op, o.Panic.S)
			}
			return
		}
		first := ""
		if op.Kind == "rawargs" && len(op.Args) > 0 {
			first = " first=" + op.Args[0].K
			if op.Args[0].K != "s" {
				first = " first=non-string"
			}
		}
		if o.Panic != nil {
			add("C02.panic", "entry="+op.Entry+first, "%s(%q, %s) panicked: %s", op.Entry, op.Msg, argShape(op.Args, 0), o.Panic.S)
			return
		}
		if !o.Ended {
			return // the world died here; reported below
		}
		ls, ok := snap[op.L]
		if !ok {
			return
		}
		ws := model.WritersFromHistory(sc.Setup, setupLen)[op.L]
		if ws == nil {
			return
		}
		byW := map[int][]scen.Event{}
		for _, w := range o.Writes {
			if w.W == c02NestedWriter {
				// a record issued from inside a value's String method during this call: one whole record of
				// exactly that nested call (how often the value is formatted is not prescribed)
				found := tokRe.FindAllString(string(w.P), -1)
				if len(w.P) == 0 || w.P[len(w.P)-1] != '\n' || len(found) != 1 || !nestedToks[found[0]] {
					add("C02.nested", "entry="+op.Entry, "%s(%q, %s): the record logged from inside a value's String method arrived as %.200q", op.Entry, op.Msg, argShape(op.Args, 0), w.P)
				}
				continue
			}
			byW[w.W] = append(byW[w.W], w)
		}
		nOwn := 0
		for _, evs := range byW {
			nOwn += len(evs)
		}
		want := reg.Admitted(ls.Level, op.Lvl, debug)
		sel, sure := ws.Select(reg, op.Lvl)
		mode := ""
		if ph == "task" {
			mode = " conc"
		}
		switch {
		case want == model.Deny:
			// (a value that logs from inside String() may be evaluated before the gate is asked, as Println does
			// with its first argument: its record is another call's, on the nested logger's own destination)
			if nOwn > 0 {
				add("C02.unadmitted-write", "entry="+op.Entry+mode, "%s at %s on a logger at %s is not admitted but %d Write(s) happened", op.Entry, model.LevelName(op.Lvl), model.LevelName(ls.Level), nOwn)
			}
			return
		case want == model.Unknown:
			if nOwn == 0 {
				return
			}
		}
		if !sure {
			return
		}
		exp := map[int]int{}
		for _, w := range sel {
			exp[w]++
		}
		ids := map[int]bool{}
		for w := range exp {
			ids[w] = true
		}
		for w := range byW {
			ids[w] = true
		}
		blank := isBlank(op.Msg) && len(op.X) == 0 && op.Kind != "rawargs" && op.Lvl == model.Always && (strings.Contains(op.Entry, "Print"))
		for _, w := range sortedKeysInt(ids) {
			evs := byW[w]
			if len(evs) != exp[w] {
				add("C02.count", fmt.Sprintf("entry=%s got=%d want=%d%s", op.Entry, min(len(evs), 3), exp[w], mode), "%s(%q, %s) at %s: destination %d saw %d Write calls for this call, expected %d (selected %v)", op.Entry, op.Msg, argShape(op.Args, 0), model.LevelName(op.Lvl), w, len(evs), exp[w], sel)
				continue
			}
			for _, e := range evs {
				if len(e.P) == 0 || e.P[len(e.P)-1] != '\n' {
					add("C02.newline", "entry="+op.Entry+mode, "%s(%q, %s): payload does not end with a newline: %.200q", op.Entry, op.Msg, argShape(op.Args, 0), e.P)
				}
				for _, ft := range tokRe.FindAllString(string(e.P), -1) {
					if ft != op.Tok {
						add("C02.foreign", "entry="+op.Entry+mode, "%s(%q): the payload carries a piece of the record of another call (%s): %.300q", op.Entry, op.Msg, ft, e.P)
						break
					}
				}
				if blank {
					if string(e.P) != "\n" {
						add("C02.blank", "entry="+op.Entry+mode, "blank %s(%q) must be delivered as exactly one newline byte, got %.120q", op.Entry, op.Msg, e.P)
					}
				} else if op.Tok != "" && len(op.X) == 0 && strings.Contains(op.Msg, op.Tok) && !containsTok(e.P, op.Tok) {
					add("C02.whole", "entry="+op.Entry+mode, "%s(%q): the payload does not contain the call's token: %.200q", op.Entry, op.Msg, e.P)
				} else if op.Tok != "" && len(op.X) == 0 && op.J == 0 && strings.Count(string(e.P), op.Tok) < strings.Count(op.Msg, op.Tok) {
					add("C02.whole", "entry="+op.Entry+mode+" lines", "%s(%q): the message names the call %d times, the payload %d times: %.300q", op.Entry, op.Msg, strings.Count(op.Msg, op.Tok), strings.Count(string(e.P), op.Tok), e.P)
				}
			}
		}
	}
	for i := range sc.Setup {
		checkCall("setup", 0, i, &sc.Setup[i])
	}
	if len(sc.Tasks) > 1 {
		attributed = c02Attribute(sc, ops, nestedToks, func(op *scen.Op) (map[int]int, bool) {
			ls, ok := snap[op.L]
			ws := model.WritersFromHistory(sc.Setup, setupLen)[op.L]
			if !ok || ws == nil {
				return nil, false
			}
			switch reg.Admitted(ls.Level, op.Lvl, debug) {
			case model.Deny:
				return map[int]int{}, true
			}
			sel, sure := ws.Select(reg, op.Lvl)
			if !sure {
				return nil, false
			}
			exp := map[int]int{}
			for _, w := range sel {
				exp[w]++
			}
			if reg.Admitted(ls.Level, op.Lvl, debug) == model.Unknown {
				exp[c02Optional] = 1 // the model does not decide whether the call is admitted: all of it or nothing
			}
			return exp, true
		})
	}
	for _, t := range sc.Tasks {
		for i := range t.Ops {
			checkCall("task", t.ID, i, &t.Ops[i])
		}
	}
	if worldDied(run) {
		add("C02.terminated", "world", "the world process ended early (exit=%d) stderr=%.300q", run.ExitCode, lastLines(run.Stderr, 300))
	}
	return dedupe(out)
}

// c02Optional marks, in an expectation, a call whose admission the model leaves open.
const c02Optional = -1 << 20

// c02Attribute distributes the writes observed while the caller tasks ran over the calls of those tasks.
func c02Attribute(sc *scen.Scenario, ops map[string]*opObs, nestedToks map[string]bool, expect func(*scen.Op) (map[int]int, bool)) map[string][]scen.Event {
	out := map[string][]scen.Event{}
	owner := map[string]string{} // call token -> call
	var anon []string            // calls whose record names no call, in task order
	blankCall := map[string]bool{}
	exp := map[string]map[int]int{} // what such a call expects per destination; absent: not decided by the model
	for _, t := range sc.Tasks {
		for i := range t.Ops {
			op := &t.Ops[i]
			k := opKey("task", t.ID, i+1)
			out[k] = nil
			if op.Op != "log" {
				continue
			}
			if op.Tok != "" && op.Kind != "rawargs" && op.Kind != "blank" && len(op.X) == 0 && strings.Contains(op.Msg, op.Tok) {
				owner[op.Tok] = k
			} else {
				anon = append(anon, k)
				blankCall[k] = isBlank(op.Msg) && len(op.X) == 0 && op.Kind != "rawargs" && op.Lvl == model.Always && strings.Contains(op.Entry, "Print")
				if op.Tok != "" && owner[op.Tok] == "" {
					owner[op.Tok] = k // its payload may or may not show the token (a message of arbitrary bytes)
				}
				if e, known := expect(op); known {
					exp[k] = e
				}
			}
		}
	}
	type loose struct {
		e    scen.Event
		from string
	}
	var pool []loose
	for _, t := range sc.Tasks {
		for i := range t.Ops {
			k := opKey("task", t.ID, i+1)
			o := ops[k]
			if o == nil {
				continue
			}
			for _, e := range o.Writes {
				if e.W == c02NestedWriter {
					out[k] = append(out[k], e)
					continue
				}
				found := map[string]bool{}
				for _, m := range tokRe.FindAllString(string(e.P), -1) {
					if !nestedToks[m] {
						found[m] = true
					}
				}
				switch len(found) {
				case 0:
					pool = append(pool, loose{e, k})
				case 1:
					for m := range found {
						if ok, has := owner[m]; has {
							out[ok] = append(out[ok], e)
						} else {
							out[k] = append(out[k], e)
						}
					}
				default:
					out[k] = append(out[k], e) // pieces of several records: judged where it was seen
				}
			}
		}
	}
	// payloads that name no call: first to the call during which they were seen if that call is anonymous too,
	// then bare newlines to the blank calls and the rest to the other anonymous calls, what is left stays where it was seen
	taken := make([]bool, len(pool))
	have := map[string]map[int]int{}
	give := func(k string, q int) {
		out[k] = append(out[k], pool[q].e)
		taken[q] = true
		if have[k] == nil {
			have[k] = map[int]int{}
		}
		have[k][pool[q].e.W]++
	}
	isAnon := map[string]bool{}
	for _, k := range anon {
		isAnon[k] = true
		// what the call has got already through a token that did show in its payload
		for _, e := range out[k] {
			if e.W != c02NestedWriter {
				if have[k] == nil {
					have[k] = map[int]int{}
				}
				have[k][e.W]++
			}
		}
	}
	needs := func(k string, w int) bool {
		e, known := exp[k]
		return known && e[c02Optional] == 0 && have[k][w] < e[w]
	}
	may := func(k string, w int) bool {
		e, known := exp[k]
		return !known || (e[c02Optional] > 0 && have[k][w] < e[w])
	}
	// (a bare newline is what a blank Print/Println expects; anything else can only be another call's record)
	fits := func(k string, q int) bool { return (string(pool[q].e.P) == "\n") == blankCall[k] }
	for q := range pool {
		if isAnon[pool[q].from] && needs(pool[q].from, pool[q].e.W) && fits(pool[q].from, q) {
			give(pool[q].from, q)
		}
	}
	for pass := 0; pass < 3; pass++ {
		for _, k := range anon {
			if pass < 2 && blankCall[k] != (pass == 0) {
				continue
			}
			for q := range pool {
				if _, known := exp[k]; taken[q] || !known || !needs(k, pool[q].e.W) {
					continue
				}
				if fits(k, q) || (pass == 2 && !blankCall[k]) {
					give(k, q)
				}
			}
		}
	}
	for q := range pool {
		if taken[q] {
			continue
		}
		to := pool[q].from
		if !(isAnon[to] && may(to, pool[q].e.W)) {
			for _, k := range anon {
				if may(k, pool[q].e.W) {
					to = k // a call the model does not decide: it may have produced this one
					break
				}
			}
		}
		taken[q] = true
		out[to] = append(out[to], pool[q].e)
		if have[to] == nil {
			have[to] = map[int]int{}
		}
		have[to][pool[q].e.W]++
	}
	return out
}

func min(a, b int) int {
	if a < b {
		return a
	}
	return b
}

func (p *C02) Classify(sc *scen.Scenario, run *orch.Run) (string, bool) {
	var sb strings.Builder
	nt := false
	one := func(op *scen.Op) {
		if op.Op != "log" {
			fmt.Fprintf(&sb, "%s:%d;", op.Op, len(op.Opts))
			return
		}
		shape := argShape(op.Args, 0)
		fmt.Fprintf(&sb, "%s:%d:%s:%s;", op.Entry, op.Lvl, op.Kind, shape)
		if strings.ContainsAny(shape, "(") || strings.Contains(shape, "attrs") || strings.Contains(shape, "nil") || op.Kind == "rawargs" {
			nt = true
		}
	}
	for i := range sc.Setup {
		one(&sc.Setup[i])
	}
	for _, t := range sc.Tasks {
		sb.WriteString("|task;")
		for i := range t.Ops {
			one(&t.Ops[i])
		}
	}
	return fmt.Sprintf("%x", scen.HashString(sb.String())), nt
}
