package props

import (
	"fmt"
	"strings"

	"verif/internal/orch"
	"verif/internal/scen"
)

// C07 — attribute assembly: sources, precedence, uniqueness and order.
type C07 struct{}

func (*C07) ID() string     { return "C07" }
func (*C07) Level() string  { return "exploration" }
func (*C07) Engine() string { return "HIST" }
func (*C07) Rule() string {
	return "seeded histories: logger chains of depth 1-4 with own-attribute lists (incl. empty, given as New options and Set* calls), the inherit flag toggled between probes, context keys (string, Stringer, other; present, absent, nil context), call-site lists of 0-64 attributes (pairs, Attr, Attrs, []Attr, groups nested to depth 2) with forced key collisions across and inside sources, three formats, pool tape choosing fresh or recycled attribute slices; every occurrence carries a unique value so the decoded record is compared pair by pair with the reference merge; distinct = hash of (chain shape, flag, attribute-key sequence, format); non-trivial = a key collision across two different sources, or > 12 attributes, or a scalar sorted after a group"
}

func (*C07) Plan(tier string) orch.Plan {
	n := 6000
	if tier == "thorough" {
		n = 400000
	}
	return orch.Plan{Episodes: n, Batch: 1}
}

type c07Gen struct {
	r    *scen.Rng
	val  int64
	keys []string
}

func (g *c07Gen) nextVal() int64 { g.val++; return 9000000 + g.val }

func (g *c07Gen) key() string {
	// small key universe => collisions across sources
	return scen.Pick(g.r, g.keys)
}

func (g *c07Gen) scalar(k string) scen.Arg {
	v := scen.Arg{K: "i", I: g.nextVal()}
	switch g.r.Intn(3) {
	case 0:
		return scen.Arg{K: "attr", Key: k, Items: []scen.Arg{v}}
	default:
		return scen.Arg{K: "typed", Key: k, Items: []scen.Arg{v}}
	}
}

func (g *c07Gen) group(depth int) scen.Arg {
	a := scen.Arg{K: "group", Key: "g" + g.key()}
	n := g.r.Intn(5)
	for i := 0; i < n; i++ {
		mk := "m" + g.key()
		if depth < 2 && g.r.Chance(1, 6) {
			a.Items = append(a.Items, g.group(depth+1))
		} else if g.r.Bool() {
			a.Items = append(a.Items, scen.Arg{K: "key", S: mk}, scen.Arg{K: "i", I: g.nextVal()})
		} else {
			a.Items = append(a.Items, g.scalar(mk))
		}
	}
	return a
}

// list builds an argument list of about n attributes.
func (g *c07Gen) list(n int, groups bool) []scen.Arg {
	var out []scen.Arg
	for len(flattenArgs(out)) < n {
		switch c := g.r.Intn(12); {
		case c < 5:
			out = append(out, scen.Arg{K: "key", S: g.key()}, scen.Arg{K: "i", I: g.nextVal()})
		case c < 8:
			out = append(out, g.scalar(g.key()))
		case c < 9 && groups:
			out = append(out, g.group(1))
		case c < 10:
			var items []scen.Arg
			for k := g.r.Range(1, 3); k > 0; k-- {
				items = append(items, g.scalar(g.key()))
			}
			out = append(out, scen.Arg{K: scen.Pick(g.r, []string{"attrs", "attrslice"}), Items: items})
		case c < 11:
			// NewAttrs(...) of a free-form list
			var items []scen.Arg
			for k := g.r.Range(1, 3); k > 0; k-- {
				items = append(items, scen.Arg{K: "key", S: g.key()}, scen.Arg{K: "i", I: g.nextVal()})
			}
			out = append(out, scen.Arg{K: "newattrs", Items: items})
		default:
			out = append(out, g.scalar(g.key()))
		}
	}
	return out
}

func (p *C07) Gen(seed uint64, i int, tier string) *scen.Scenario {
	r := scen.NewRng(scen.Mix(seed, scen.HashString("C07"), uint64(i)))
	sc := &scen.Scenario{Property: "C07", Engine: "HIST", Seed: scen.Mix(seed, 107, uint64(i)) >> 12}
	sc.World.Isolated = true
	sc.World.NoFlags = []string{"Lcaller"}
	sc.World.Flags = []string{"LnoInterrupt"}
	sc.World.Clock = scen.Clock{TickNs: 1, MinStep: 40, MaxStep: 2000}
	g := &c07Gen{r: r}
	nk := r.Range(3, 16)
	for k := 0; k < nk; k++ {
		g.keys = append(g.keys, fmt.Sprintf("%c%d", 'a'+byte(r.Intn(6)), k))
	}
	format := scen.Pick(r, []string{"json", "color", "logfmt"})
	if i%10 == 9 {
		return c07Family(sc, r, g, format)
	}
	depth := r.Range(1, 4)
	if r.Chance(1, 4) {
		depth = r.Range(3, 6) // more loggers than the deepest chain: some are siblings
	}
	var sharedArgs []scen.Arg
	var sharedOn []int
	depthOf := map[int]int{1: 1}
	for d := 1; d <= depth; d++ {
		var op scen.Op
		if d == 1 {
			op = scen.Op{Op: "new_root", R: 1, Name: "l1", Named: true}
			switch format {
			case "json":
				op.Opts = append(op.Opts, scen.Op{Kind: "json", B: []bool{true}})
			case "logfmt":
				op.Opts = append(op.Opts, scen.Op{Kind: "color", B: []bool{false}})
			}
			op.Opts = append(op.Opts, scen.Op{Kind: "level", Lvl: 8})
		} else {
			par := d - 1
			if depth > 4 || r.Chance(1, 6) {
				// a branch: siblings and cousins share ancestors (their records are each other's history);
				// no chain gets deeper than 4
				par = r.Range(1, d-1)
				for depthOf[par] >= 4 {
					par = r.Range(1, d-1)
				}
			}
			depthOf[d] = depthOf[par] + 1
			op = scen.Op{Op: "new_child", L: par, R: d, Name: fmt.Sprintf("l%d", d), Named: true}
		}
		op.Opts = append(op.Opts, scen.Op{Kind: "writer", W: d}, scen.Op{Kind: "errwriter", W: d})
		// own attributes: empty in 1/3 of the loggers; given either as New's free-form
		// arguments (pairs, Attr, NewAttrs) or through With/Set options, never both in one call
		if r.Chance(1, 4) {
			op.Args = g.list(r.Range(1, 5), r.Chance(1, 4))
			if r.Bool() {
				op.Args = []scen.Arg{{K: "newattrs", Items: op.Args}}
			}
		} else if sharedArgs != nil && r.Chance(1, 2) {
			// the same caller-owned Attrs value as another logger got (it has spare capacity)
			op.Opts = append(op.Opts, scen.Op{Kind: "attrs1", J: 1, Args: sharedArgs})
			sharedOn = append(sharedOn, d)
		} else if !r.Chance(1, 3) {
			kind := scen.Pick(r, []string{"attrs", "args", "attrs1"})
			if kind == "attrs1" && sharedArgs == nil && r.Chance(1, 2) {
				sharedArgs = []scen.Arg{g.scalar(g.key())}
				op.Opts = append(op.Opts, scen.Op{Kind: "attrs1", J: 1, Args: sharedArgs})
				sharedOn = append(sharedOn, d)
				sc.Setup = append(sc.Setup, op)
				continue
			}
			o := scen.Op{Kind: kind}
			if kind == "args" {
				o.Args = g.list(r.Range(1, 5), r.Chance(1, 4))
			} else {
				na := r.Range(1, 4)
				if r.Chance(1, 20) {
					na = scen.Pick(r, []int{120, 135, 300}) // more own attributes than the pooled per-call slice holds at first
				}
				for k := na; k > 0; k-- {
					kk := g.key()
					if na > 10 {
						kk = fmt.Sprintf("w%d", k) // wide lists need their own key space
					}
					o.Args = append(o.Args, g.scalar(kk))
				}
			}
			op.Opts = append(op.Opts, o)
		}
		sc.Setup = append(sc.Setup, op)
		if r.Chance(1, 4) {
			o := scen.Op{Op: "set", L: d, Kind: "attrs"}
			for k := r.Range(1, 3); k > 0; k-- {
				o.Args = append(o.Args, g.scalar(g.key()))
			}
			sc.Setup = append(sc.Setup, o)
		}
		if r.Chance(1, 8) {
			// keys registered and dropped again
			sc.Setup = append(sc.Setup, scen.Op{Op: "set", L: d, Kind: "ctxkeys", Keys: []scen.CtxKey{{Kind: "s", Name: g.key()}}},
				scen.Op{Op: "set", L: d, Kind: "reset_ctxkeys"})
		}
		if r.Chance(1, 3) {
			o := scen.Op{Op: "set", L: d, Kind: "ctxkeys"}
			for k := r.Range(1, 3); k > 0; k-- {
				o.Keys = append(o.Keys, scen.CtxKey{Kind: scen.Pick(r, []string{"s", "s", "st", "o"}), Name: g.key()})
			}
			sc.Setup = append(sc.Setup, o)
		}
	}
	// every logger holding the shared list gets one more attribute of its own afterwards
	if len(sharedOn) >= 2 {
		for _, d := range sharedOn {
			sc.Setup = append(sc.Setup, scen.Op{Op: "set", L: d, Kind: scen.Pick(r, []string{"attrs", "args"}), Args: nil})
			last := &sc.Setup[len(sc.Setup)-1]
			if last.Kind == "args" {
				last.Args = []scen.Arg{{K: "key", S: g.key()}, {K: "i", I: g.nextVal()}}
			} else {
				last.Args = []scen.Arg{g.scalar(g.key())}
			}
		}
	}
	inherit := false
	prevL := 1
	nProbes := r.Range(2, 8)
	for k := 0; k < nProbes; k++ {
		if r.Chance(1, 2) {
			inherit = !inherit
			if inherit {
				sc.Setup = append(sc.Setup, scen.Op{Op: "add_flags", S: []string{"LattrsR"}})
			} else {
				sc.Setup = append(sc.Setup, scen.Op{Op: "remove_flags", S: []string{"LattrsR"}})
			}
		}
		l := r.Range(1, depth)
		if k > 0 && r.Chance(1, 2) {
			l = prevL // the logger that printed before prints again
		}
		prevL = l
		if k > 0 && r.Chance(1, 2) {
			// log - mutate - log: the configuration changes after records were already printed from it
			// (an ancestor, the logger itself or a descendant gets more attributes or other context keys)
			for q := r.Range(1, 2); q > 0; q-- {
				d := r.Range(1, depth)
				if r.Chance(2, 3) {
					d = r.Range(1, l) // loggers are numbered root first: an ancestor-or-self more often than not
				}
				switch r.Intn(4) {
				case 0:
					sc.Setup = append(sc.Setup, scen.Op{Op: "set", L: d, Kind: "ctxkeys", Keys: []scen.CtxKey{{Kind: scen.Pick(r, []string{"s", "st"}), Name: g.key()}}})
				case 1:
					sc.Setup = append(sc.Setup, scen.Op{Op: "set", L: d, Kind: "args", Args: []scen.Arg{{K: "key", S: g.key()}, {K: "i", I: g.nextVal()}}})
				default:
					o := scen.Op{Op: "set", L: d, Kind: "attrs"}
					for a := r.Range(1, 3); a > 0; a-- {
						o.Args = append(o.Args, g.scalar(g.key()))
					}
					sc.Setup = append(sc.Setup, o)
				}
			}
		}
		n := 0
		switch r.Intn(6) {
		case 0:
			n = 0
		case 1:
			n = r.Range(13, 64)
		default:
			n = r.Range(1, 12)
		}
		t := tok(k + 1)
		op := scen.Op{Op: "log", L: l, Entry: scen.Pick(r, []string{"Info", "InfoContext", "LogAttrs", "Print", "Warn"}), Lvl: 4, Msg: "m" + t, Tok: t, Probe: true}
		if n > 0 {
			op.Args = g.list(n, format != "json" || r.Chance(1, 3))
		}
		if op.Entry == "InfoContext" || op.Entry == "LogAttrs" {
			switch r.Intn(5) {
			case 0:
				op.Ctx = &scen.CtxSpec{Nil: true}
			case 1:
			default:
				c := &scen.CtxSpec{}
				for q := r.Range(1, 4); q > 0; q-- {
					v := scen.Arg{K: "i", I: g.nextVal()}
					if r.Chance(1, 6) {
						v = scen.Arg{K: "nil"}
					}
					c.Vals = append(c.Vals, scen.CtxVal{Key: scen.CtxKey{Kind: scen.Pick(r, []string{"s", "s", "st", "o"}), Name: g.key()}, V: v})
				}
				op.Ctx = c
			}
		}
		sc.Setup = append(sc.Setup, op)
	}
	return sc
}

// c07Family: a parent whose attribute list has grown by Set calls (so its backing array has room to
// spare) and 2-3 children with own attributes; with the inherit flag on, the children print in turn,
// again and again: what one child's record assembled must not show up in its sibling's.
func c07Family(sc *scen.Scenario, r *scen.Rng, g *c07Gen, format string) *scen.Scenario {
	root := scen.Op{Op: "new_root", R: 1, Name: "l1", Named: true}
	switch format {
	case "json":
		root.Opts = append(root.Opts, scen.Op{Kind: "json", B: []bool{true}})
	case "logfmt":
		root.Opts = append(root.Opts, scen.Op{Kind: "color", B: []bool{false}})
	}
	root.Opts = append(root.Opts, scen.Op{Kind: "level", Lvl: 8}, scen.Op{Kind: "writer", W: 1}, scen.Op{Kind: "errwriter", W: 1})
	sc.Setup = append(sc.Setup, root)
	for k := r.Range(1, 3); k > 0; k-- {
		o := scen.Op{Op: "set", L: 1, Kind: scen.Pick(r, []string{"attrs", "args"})}
		if o.Kind == "args" {
			o.Args = []scen.Arg{{K: "key", S: g.key()}, {K: "i", I: g.nextVal()}}
		} else {
			for a := r.Range(1, 2); a > 0; a-- {
				o.Args = append(o.Args, g.scalar(g.key()))
			}
		}
		sc.Setup = append(sc.Setup, o)
	}
	kids := r.Range(2, 3)
	for d := 2; d <= 1+kids; d++ {
		op := scen.Op{Op: "new_child", L: 1, R: d, Name: fmt.Sprintf("l%d", d), Named: true, Opts: []scen.Op{{Kind: "writer", W: d}, {Kind: "errwriter", W: d}}}
		o := scen.Op{Kind: scen.Pick(r, []string{"attrs", "args"})}
		if o.Kind == "args" {
			o.Args = []scen.Arg{{K: "key", S: g.key()}, {K: "i", I: g.nextVal()}}
		} else {
			for a := r.Range(1, 2); a > 0; a-- {
				o.Args = append(o.Args, g.scalar(g.key()))
			}
		}
		op.Opts = append(op.Opts, o)
		sc.Setup = append(sc.Setup, op)
	}
	if r.Chance(3, 4) {
		sc.Setup = append(sc.Setup, scen.Op{Op: "add_flags", S: []string{"LattrsR"}})
	}
	for k := 0; k < r.Range(3, 8); k++ {
		t := tok(k + 1)
		op := scen.Op{Op: "log", L: r.Range(2, 1+kids), Entry: scen.Pick(r, []string{"Info", "LogAttrs", "Warn"}), Lvl: 4, Msg: "m" + t, Tok: t, Probe: true}
		if r.Bool() {
			op.Args = g.list(r.Range(1, 3), false)
		}
		sc.Setup = append(sc.Setup, op)
	}
	return sc
}

// WellFormed: the invariants of the generator that the oracle relies on.
func (p *C07) WellFormed(sc *scen.Scenario) bool {
	seen := map[int64]bool{}
	sharedSeen := map[int64]bool{}
	for i := range sc.Setup {
		op := &sc.Setup[i]
		if !attrsWellFormed(op.Args, seen) {
			return false
		}
		for k := range op.Opts {
			if o := &op.Opts[k]; o.Kind == "attrs1" && o.J > 0 {
				// one caller-owned list given to several loggers: its values are counted once
				if sharedSeen[o.J] {
					continue
				}
				sharedSeen[o.J] = true
			}
			if !attrsWellFormed(op.Opts[k].Args, seen) {
				return false
			}
		}
		for _, ck := range op.Keys {
			if !safeKeyRe.MatchString(ck.Name) {
				return false
			}
		}
		if op.Ctx != nil {
			for _, cv := range op.Ctx.Vals {
				if !safeKeyRe.MatchString(cv.Key.Name) {
					return false
				}
				if cv.V.K != "nil" && (cv.V.K != "i" || !uniqueVal(cv.V.I, seen)) {
					return false
				}
			}
		}
		if op.Op == "log" && (op.Tok == "" || !strings.Contains(op.Msg, op.Tok)) {
			return false
		}
	}
	return true
}

type c07Logger struct {
	parent  int
	attrs   []mAttr
	ctxKeys []scen.CtxKey
	format  string
}

func c07AttrsOf(o *scen.Op) []mAttr {
	switch o.Kind {
	case "attrs", "attrs1", "args":
		return flattenArgs(o.Args)
	}
	return nil
}

func (p *C07) Check(sc *scen.Scenario, run *orch.Run, env *orch.Env) []orch.Violation {
	var out []orch.Violation
	if worldDied(run) {
		return []orch.Violation{{Rule: "C07.terminated", Witness: "world", Detail: fmt.Sprintf("world ended early exit=%d stderr=%.300q", run.ExitCode, lastLines(run.Stderr, 300))}}
	}
	ops := indexOps(run)
	ls := map[int]*c07Logger{}
	inherit := false
	for _, f := range sc.World.Flags {
		if f == "LattrsR" {
			inherit = true
		}
	}
	for i := range sc.Setup {
		op := &sc.Setup[i]
		o := ops[opKey("setup", 0, i+1)]
		if o == nil || o.Skipped {
			continue
		}
		if o.Panic != nil {
			out = append(out, orch.Violation{Rule: "C07.panic", Witness: op.Op + "/" + op.Kind + op.Entry, Detail: "panicked: " + o.Panic.S})
			continue
		}
		switch op.Op {
		case "new_root", "new_child":
			l := &c07Logger{parent: -1, format: "color"}
			if op.Op == "new_child" {
				pl := ls[op.L]
				if pl == nil {
					continue
				}
				l.parent = op.L
				l.format = pl.format
			}
			l.attrs = append(l.attrs, flattenArgs(op.Args)...)
			for k := range op.Opts {
				oo := &op.Opts[k]
				l.attrs = append(l.attrs, c07AttrsOf(oo)...)
				switch oo.Kind {
				case "json", "color":
					st := map[string]int{"color": fmtColor, "json": fmtJSON, "logfmt": fmtLogfmt}[l.format]
					l.format = []string{"color", "json", "logfmt"}[fmtApply(st, oo.Kind, oo.B)]
				}
			}
			var ret struct {
				ID  int  `json:"id"`
				New bool `json:"new"`
			}
			if retInto(o, &ret) && ret.New {
				ls[ret.ID] = l
			}
		case "set":
			l := ls[op.L]
			if l == nil {
				continue
			}
			l.attrs = append(l.attrs, c07AttrsOf(op)...)
			if op.Kind == "ctxkeys" {
				l.ctxKeys = append(l.ctxKeys, op.Keys...)
			}
			if op.Kind == "reset_ctxkeys" {
				l.ctxKeys = nil
			}
		case "add_flags", "remove_flags":
			for _, f := range op.S {
				if f == "LattrsR" {
					inherit = op.Op == "add_flags"
				}
			}
		case "log":
			l := ls[op.L]
			if l == nil || !op.Probe {
				continue
			}
			var list []mAttr
			sources := map[string]map[string]bool{}
			note := func(src string, as []mAttr) {
				for _, a := range as {
					if sources[a.Key] == nil {
						sources[a.Key] = map[string]bool{}
					}
					sources[a.Key][src] = true
				}
			}
			// 1. context values for the logger's registered keys, in registration order
			if op.Ctx != nil && !op.Ctx.Nil {
				for _, ck := range l.ctxKeys {
					if ck.Kind == "o" {
						continue
					}
					// context.WithValue chain: the most recently added value for an equal key wins
					for q := len(op.Ctx.Vals) - 1; q >= 0; q-- {
						cv := op.Ctx.Vals[q]
						if cv.Key.Kind == ck.Kind && cv.Key.Name == ck.Name {
							if cv.V.K != "nil" {
								list = append(list, mAttr{Key: ck.Name, Val: cv.V.I})
								note("ctx", []mAttr{{Key: ck.Name}})
							}
							break
						}
					}
				}
			}
			// 2. ancestors, outermost first, iff the inherit flag is on
			if inherit {
				var chain []int
				for a := l.parent; a >= 0 && ls[a] != nil; a = ls[a].parent {
					chain = append([]int{a}, chain...)
				}
				for _, a := range chain {
					list = append(list, ls[a].attrs...)
					note("ancestor", ls[a].attrs)
				}
			}
			// 3. own, 4. call site
			list = append(list, l.attrs...)
			note("own", l.attrs)
			call := flattenArgs(op.Args)
			list = append(list, call...)
			note("call", call)

			dotted := l.format != "json"
			want := expectedPairs(mergeAttrs(list), "", dotted)
			if len(o.Writes) != 1 {
				out = append(out, orch.Violation{Rule: "C07.probe", Witness: "writes", Detail: fmt.Sprintf("probe %s produced %d writes", op.Tok, len(o.Writes))})
				continue
			}
			got := decodePairs(o.Writes[0].P)
			if !dotted {
				for k := range got {
					got[k].Key = leafKey(got[k].Key)
				}
			}
			if v := c07Compare(want, got, list, inherit, l, len(call), sources); v != nil {
				v.Detail = fmt.Sprintf("probe %s on logger %d (%s, inherit=%v, %d call-site attrs): %s; expected [%s] got [%s]", op.Tok, op.L, l.format, inherit, len(call), v.Detail, pairsString(want), pairsString(got))
				if len(v.Detail) > 1500 {
					v.Detail = v.Detail[:1500] + "..."
				}
				out = append(out, *v)
			}
		}
	}
	return dedupe(out)
}

// c07Compare classifies the first difference between the expected and the decoded pairs.
func c07Compare(want, got []kv, list []mAttr, inherit bool, l *c07Logger, nCall int, sources map[string]map[string]bool) *orch.Violation {
	wantV := map[int64]string{}
	for _, w := range want {
		wantV[w.Val] = w.Key
	}
	gotV := map[int64]int{}
	for _, g := range got {
		gotV[g.Val]++
	}
	size := "le12"
	if len(list) > 12 {
		size = "gt12"
	}
	// a value printed without its key
	for _, g := range got {
		if g.Key == "" {
			return &orch.Violation{Rule: "C07.key-lost", Witness: "format=" + l.format, Detail: fmt.Sprintf("value %d is printed without a key", g.Val)}
		}
	}
	// a winner missing / a loser printed
	for _, w := range want {
		if gotV[w.Val] == 0 {
			// which source did it come from?
			lk := leafKey(w.Key)
			// does some other value appear under this key? then the wrong occurrence won
			for _, g := range got {
				if g.Key == w.Key {
					return &orch.Violation{Rule: "C07.precedence", Witness: "n=" + size, Detail: fmt.Sprintf("key %s shows value %d, the last occurrence (value %d) must win", w.Key, g.Val, w.Val)}
				}
			}
			src := "call"
			if s := sources[lk]; s != nil {
				switch {
				case s["call"]:
					src = "call"
				case s["own"]:
					src = "own"
				case s["ancestor"]:
					src = "ancestor"
				case s["ctx"]:
					src = "ctx"
				}
			}
			own := "own-nonempty"
			if len(l.attrs) == 0 {
				own = "own-empty"
			}
			return &orch.Violation{Rule: "C07.missing", Witness: "source=" + src + " " + own, Detail: fmt.Sprintf("attribute %s=%d is missing from the record", w.Key, w.Val)}
		}
	}
	for _, g := range got {
		if _, ok := wantV[g.Val]; !ok {
			return &orch.Violation{Rule: "C07.extra", Witness: "n=" + size, Detail: fmt.Sprintf("%s=%d is printed but is not part of the merge (a superseded occurrence or a foreign attribute)", g.Key, g.Val)}
		}
		if gotV[g.Val] > 1 {
			return &orch.Violation{Rule: "C07.duplicate", Witness: "n=" + size, Detail: fmt.Sprintf("%s=%d is printed %d times", g.Key, g.Val, gotV[g.Val])}
		}
	}
	if len(got) != len(want) {
		return &orch.Violation{Rule: "C07.count", Witness: "n=" + size, Detail: fmt.Sprintf("%d pairs printed, %d expected", len(got), len(want))}
	}
	for i := range want {
		if want[i] != got[i] {
			if want[i].Val == got[i].Val {
				return &orch.Violation{Rule: "C07.keytext", Witness: "format=" + l.format, Detail: fmt.Sprintf("value %d is printed under key %q, expected %q", got[i].Val, got[i].Key, want[i].Key)}
			}
			return &orch.Violation{Rule: "C07.order", Witness: "format=" + l.format, Detail: fmt.Sprintf("position %d holds %s, ascending key order puts %s there", i, got[i].Key, want[i].Key)}
		}
	}
	return nil
}

func (p *C07) Classify(sc *scen.Scenario, run *orch.Run) (string, bool) {
	var sb strings.Builder
	nt := false
	own := map[string]bool{}
	for i := range sc.Setup {
		op := &sc.Setup[i]
		fmt.Fprintf(&sb, "%s:%d:%s;", op.Op, op.L, op.Kind)
		collect := func(as []mAttr, isCall bool) {
			for _, a := range as {
				sb.WriteString(a.Key + ",")
				if isCall && own[a.Key] {
					nt = true
				}
				if !isCall {
					own[a.Key] = true
				}
			}
		}
		if op.Op != "log" {
			collect(flattenArgs(op.Args), false)
		}
		for k := range op.Opts {
			collect(c07AttrsOf(&op.Opts[k]), false)
			sb.WriteString(op.Opts[k].Kind)
		}
		if op.Op == "set" {
			collect(c07AttrsOf(op), false)
		}
		if op.Op == "log" {
			call := flattenArgs(op.Args)
			collect(call, true)
			if len(call) > 12 {
				nt = true
			}
			sawGroup := false
			for _, a := range mergeAttrs(call) {
				if a.IsGroup && len(a.Items) > 0 {
					sawGroup = true
				} else if sawGroup {
					nt = true
				}
			}
		}
	}
	return fmt.Sprintf("%x", scen.HashString(sb.String())), nt
}
