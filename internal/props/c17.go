package props

import (
	"bytes"
	"encoding/json"
	"fmt"
	"sort"
	"strings"

	"verif/internal/model"
	"verif/internal/orch"
	"verif/internal/scen"
)

// C17 — level names and the level registry: round trips and safe registration.
type C17 struct{}

func (*C17) ID() string     { return "C17" }
func (*C17) Level() string  { return "exploration" }
func (*C17) Engine() string { return "PROC" }
func (*C17) Rule() string {
	return "one world process per history (the registry cannot be reset): <=15 RegisterLevel calls with values that are negative, collide with built-ins or earlier registrations, equal or exceed MaxLevel, titles in any case incl. built-in names and aliases, all option combinations (short tags, treated-as, error device, colour); after every step every known level is round-tripped (String->ParseLevel, MarshalText->UnmarshalText, MarshalJSON->UnmarshalJSON also through encoding/json), ShortTag(1..5) and AllLevels are read; a refused call must leave the whole observable registry unchanged; a successful one is followed by a gated and a routed probe record; distinct = hash of the (value, title, options, outcome) sequence; non-trivial = at least one refused and one accepted registration"
}

func (*C17) Plan(tier string) orch.Plan {
	n := 2000
	if tier == "thorough" {
		n = 150000
	}
	return orch.Plan{Episodes: n, Batch: 1}
}

// lower-case words that may or may not name a level in the build under test; which of them do is
// asked of the world before the first registration (no table of names or aliases is kept here)
var c17Words = []string{"panic", "fatal", "error", "err", "warn", "warning", "info", "information", "debug", "dbg", "dev", "devel", "develop", "development",
	"trace", "verbose", "off", "no", "none", "disabled", "disable", "always", "ok", "okay", "success", "fail", "failed", "failure", "notice", "hint", "critical", "crit"}

func (p *C17) Gen(seed uint64, i int, tier string) *scen.Scenario {
	r := scen.NewRng(scen.Mix(seed, scen.HashString("C17"), uint64(i)))
	sc := &scen.Scenario{Property: "C17", Engine: "PROC", Seed: scen.Mix(seed, 117, uint64(i)) >> 12}
	sc.World.Isolated = true
	sc.World.Mode = scen.Pick(r, []string{"production", "testing"})
	sc.World.Flags = []string{"LnoInterrupt"}
	sc.World.NoFlags = []string{"Lcaller"}
	sc.World.Clock = scen.Clock{TickNs: 1, MinStep: 40, MaxStep: 400}
	// one logger per gate level, plus an Always logger for routing
	sc.Setup = append(sc.Setup,
		scen.Op{Op: "new_root", R: 1, Name: "route", Named: true, Opts: []scen.Op{{Kind: "writer", W: 1}, {Kind: "errwriter", W: 2}, {Kind: "level", Lvl: model.Always}, {Kind: "color", B: []bool{false}}}},
		scen.Op{Op: "new_root", R: 2, Name: "gate", Named: true, Opts: []scen.Op{{Kind: "writer", W: 3}, {Kind: "errwriter", W: 3}, {Kind: "level", Lvl: model.Warn}, {Kind: "color", B: []bool{false}}}},
		// the default logger reports unknown level strings through its own Warn: give it a sim destination
		opSetWriter(0, 9, "plain"), opSetErrWriter(0, 9, "plain"),
		// the first query also asks which lower-case words already name a level (aliases included)
		scen.Op{Op: "level_query", S: c17Words},
	)
	var usedV []int
	var usedT []string
	fresh := []string{"notice", "NOTICE", "Swell", "audit1", "Hint", "VERBOSE1", "x", "lvl-long-title", "Crit", "spam",
		" lead", "trail ", "two words", "tab\tbed", "dot.ted", "UPPER lower", "q?", "  "}
	tk := 0
	n := r.Range(1, 15)
	for k := 0; k < n; k++ {
		var v int
		switch c := r.Intn(10); {
		case c < 2:
			v = -r.Range(1, 100)
		case c < 3:
			v = r.Range(0, 11) // collides with a built-in
		case c < 4:
			v = 12 // == MaxLevel
		case c < 5 && len(usedV) > 0:
			v = scen.Pick(r, usedV)
		case c < 8:
			v = r.Range(13, 60)
		default:
			v = r.Range(1000, 100000)
		}
		var title string
		switch c := r.Intn(10); {
		case c < 1:
			title = scen.Pick(r, c17Words)
		case c < 2:
			title = scen.Pick(r, []string{"INFO", "Info", "WARN", "Debug", "OFF"})
		case c < 3 && len(usedT) > 0:
			title = scen.Pick(r, usedT)
		case c < 4 && len(usedT) > 0:
			t := scen.Pick(r, usedT)
			if r.Bool() {
				title = strings.ToUpper(t)
			} else {
				title = strings.ToLower(t)
			}
		default:
			title = scen.Pick(r, fresh) + fmt.Sprint(r.Intn(3))
		}
		op := scen.Op{Op: "register_level", Lvl: v, Name: title}
		if r.Chance(1, 2) {
			tags := []string{"", "", "", "", "", ""}
			for q := 1; q <= 5; q++ {
				if r.Chance(4, 5) {
					tags[q] = strings.Repeat(string(rune('A'+r.Intn(26))), q)
				}
			}
			op.Opts = append(op.Opts, scen.Op{Kind: "tags", S: tags})
		}
		if r.Chance(1, 2) {
			op.Opts = append(op.Opts, scen.Op{Kind: "treat_as", Lvl: scen.Pick(r, []int{model.Panic, model.Fatal, model.Error, model.Warn, model.Info, model.Debug, model.Trace})})
		}
		if r.Chance(1, 3) {
			op.Opts = append(op.Opts, scen.Op{Kind: "errdev", B: []bool{true}})
		}
		if r.Chance(1, 4) {
			op.Opts = append(op.Opts, scen.Op{Kind: "color", I: int64(r.Range(30, 37)), J: int64(r.Intn(2) * 5)})
		}
		qop := scen.Op{Op: "level_query", Kind: "extra", Lvl: v, S: []string{title, strings.ToLower(title), strings.ToUpper(title)}}
		sc.Setup = append(sc.Setup, qop, op, qop)
		if len(usedV) > 0 && r.Chance(1, 2) {
			// a level registered earlier must still be gated and routed as registered
			ev := scen.Pick(r, usedV)
			gl2 := scen.Pick(r, []int{model.Error, model.Warn, model.Info, model.Debug, model.Trace})
			sc.Setup = append(sc.Setup, scen.Op{Op: "set", L: 2, Kind: "level", Lvl: gl2}, scen.Op{Op: "set_debug_mode", B: []bool{false}})
			tk++
			sc.Setup = append(sc.Setup, scen.Op{Op: "log", L: 2, Entry: "LogAttrs", Lvl: ev, Msg: "g" + tok(tk), Tok: tok(tk), Probe: true, Kind: "gate", I: int64(gl2)})
			tk++
			sc.Setup = append(sc.Setup, scen.Op{Op: "log", L: 1, Entry: "Logit", Lvl: ev, Msg: "r" + tok(tk), Tok: tok(tk), Probe: true, Kind: "route"})
		}
		usedV = append(usedV, v)
		usedT = append(usedT, title)
		// probes: gate logger at a random ordinal level, then the routing logger
		gl := scen.Pick(r, []int{model.Error, model.Warn, model.Info, model.Debug, model.Trace})
		sc.Setup = append(sc.Setup, scen.Op{Op: "set", L: 2, Kind: "level", Lvl: gl}, scen.Op{Op: "set_debug_mode", B: []bool{false}})
		tk++
		sc.Setup = append(sc.Setup, scen.Op{Op: "log", L: 2, Entry: "LogAttrs", Lvl: v, Msg: "g" + tok(tk), Tok: tok(tk), Probe: true, Kind: "gate", I: int64(gl)})
		tk++
		sc.Setup = append(sc.Setup, scen.Op{Op: "log", L: 1, Entry: "Logit", Lvl: v, Msg: "r" + tok(tk), Tok: tok(tk), Probe: true, Kind: "route"})
	}
	return sc
}

// WellFormed: generator invariants the oracle relies on.
func (p *C17) WellFormed(sc *scen.Scenario) bool {
	roots := map[int]bool{}
	for i := range sc.Setup {
		op := &sc.Setup[i]
		if op.Op == "register_level" && op.Name == "" {
			return false
		}
		if op.Op == "new_root" {
			// the routing logger (1: writer 1 / error writer 2, Always) and the gate logger (2: writer 3 for both)
			want := map[int][3]int{1: {1, 2, model.Always}, 2: {3, 3, model.Warn}}[op.R]
			if want == [3]int{} || len(op.Opts) != 4 || op.Opts[0].Kind != "writer" || op.Opts[0].W != want[0] || op.Opts[1].Kind != "errwriter" || op.Opts[1].W != want[1] ||
				op.Opts[2].Kind != "level" || op.Opts[2].Lvl != want[2] || op.Opts[3].Kind != "color" || len(op.Opts[3].B) != 1 || op.Opts[3].B[0] {
				return false
			}
			roots[op.R] = true
		}
		if op.Op == "set" && (op.Kind == "level") != (op.L == 2) {
			return false // levels are set on the gate logger only; the default logger only gets its sim writers
		}
		if op.Op == "log" {
			if op.Tok == "" || !op.Probe {
				return false
			}
			switch op.Kind {
			case "route":
				if op.L != 1 || !roots[1] {
					return false
				}
			case "gate":
				if op.L != 2 || !roots[2] {
					return false
				}
			default:
				return false
			}
		}
	}
	return true
}

type c17View struct {
	Level     int      `json:"level"`
	String    string   `json:"string"`
	ParseOK   bool     `json:"parse_ok"`
	Parsed    int      `json:"parsed"`
	TextOK    bool     `json:"text_ok"`
	Text      string   `json:"text"`
	UnTextOK  bool     `json:"untext_ok"`
	UnText    int      `json:"untext"`
	JSONOK    bool     `json:"json_ok"`
	JSON      string   `json:"json"`
	UnJSONOK  bool     `json:"unjson_ok"`
	UnJSON    int      `json:"unjson"`
	EncOK     bool     `json:"enc_ok"`
	Enc       string   `json:"enc"`
	UnEncOK   bool     `json:"unenc_ok"`
	UnEnc     int      `json:"unenc"`
	ShortTags []string `json:"short_tags"`
	TagPanic  string   `json:"tag_panic"`
}

type c17Query struct {
	All    []int          `json:"all"`
	Views  []c17View      `json:"views"`
	Parses map[string]int `json:"parses"`
}

func (p *C17) Check(sc *scen.Scenario, run *orch.Run, env *orch.Env) []orch.Violation {
	var out []orch.Violation
	add := func(rule, witness, format string, a ...any) {
		out = append(out, orch.Violation{Rule: rule, Witness: witness, Detail: fmt.Sprintf(format, a...)})
	}
	if worldDied(run) {
		return []orch.Violation{{Rule: "C17.terminated", Witness: "world", Detail: fmt.Sprintf("world ended early exit=%d stderr=%.300q", run.ExitCode, lastLines(run.Stderr, 300))}}
	}
	ops := indexOps(run)
	reg := model.NewRegistry()
	// texts that certainly name a level: the printed names of the built-in levels as this build
	// reports them, and the titles registered so far. Aliases ("dev", "warn" ...) are an extra of the
	// implementation: a title that ParseLevel understood before the registration may be refused or not.
	names := map[string]int{}
	known := map[int]bool{}
	for l := 0; l < model.MaxLevel; l++ {
		known[l] = true
	}
	var prevQ *c17Query
	var prevRaw []byte

	for i := range sc.Setup {
		op := &sc.Setup[i]
		o := ops[opKey("setup", 0, i+1)]
		if o == nil || o.Skipped {
			continue
		}
		if o.Panic != nil {
			add("C17.panic", "op="+op.Op, "setup[%d] %s(%d,%q) panicked: %s", i, op.Op, op.Lvl, op.Name, o.Panic.S)
			continue
		}
		switch op.Op {
		case "level_query":
			var q c17Query
			if !retInto(o, &q) {
				continue
			}
			raw := o.Rets[0].V
			if prevQ == nil {
				// before any registration: every lower-case word ParseLevel understands is a name in use
				for w, lv := range q.Parses {
					if lv != -99999 && w == strings.ToLower(w) {
						names[w] = lv
					}
				}
			}
			// what did the preceding registration do?
			if i > 0 && sc.Setup[i-1].Op == "register_level" {
				rop := &sc.Setup[i-1]
				ro := ops[opKey("setup", 0, i)]
				var ret struct {
					OK  bool   `json:"ok"`
					Err string `json:"err"`
				}
				if ro != nil && retInto(ro, &ret) {
					valueUsed := known[rop.Lvl]
					_, titleUsed := names[rop.Name]
					titleFoldUsed := false
					for n := range names {
						if strings.EqualFold(n, rop.Name) {
							titleFoldUsed = true
						}
					}
					if prevQ != nil {
						if lv, asked := prevQ.Parses[rop.Name]; asked && lv != -99999 {
							titleFoldUsed = true // understood by ParseLevel already: possibly an alias
						}
					}
					switch {
					case (valueUsed || titleUsed) && ret.OK:
						w := "value-in-use"
						if !valueUsed {
							w = "title-in-use"
						}
						add("C17.accepted", w, "RegisterLevel(%d, %q) was accepted although the %s", rop.Lvl, rop.Name, map[bool]string{true: "value is already a level", false: "title already names a level"}[valueUsed])
					case !valueUsed && !titleFoldUsed && !ret.OK:
						add("C17.refused", "fresh", "RegisterLevel(%d, %q) was refused (%s) although neither the value nor the title is in use", rop.Lvl, rop.Name, ret.Err)
					}
					if !ret.OK && prevQ != nil {
						// the whole observable registry is unchanged (the views of the attempted value
						// and the parses of the attempted title are part of both queries' comparison basis)
						if d := c17Diff(prevQ, &q, rop.Lvl); d != "" {
							w := "value-collision"
							if !valueUsed {
								w = "title-collision"
							}
							add("C17.refusal-side-effect", w, "refused RegisterLevel(%d, %q) changed the registry: %s", rop.Lvl, rop.Name, d)
						}
					}
					if ret.OK {
						c := &model.Custom{Value: rop.Lvl, Title: rop.Name}
						for _, oo := range rop.Opts {
							switch oo.Kind {
							case "treat_as":
								c.HasTreat, c.TreatAs = true, oo.Lvl
							case "errdev":
								c.ErrDev = len(oo.B) > 0 && oo.B[len(oo.B)-1]
							case "tags":
								c.Tags = oo.S
							}
						}
						reg.Customs[c.Value] = c
						known[c.Value] = true
						names[c.Title] = c.Value
					}
				}
			}
			// AllLevels: every known level exactly once
			cnt := map[int]int{}
			for _, l := range q.All {
				cnt[l]++
			}
			for l := range known {
				if cnt[l] != 1 {
					add("C17.alllevels", "count", "AllLevels lists level %d %d times", l, cnt[l])
				}
			}
			for l := range cnt {
				if !known[l] {
					add("C17.alllevels", "foreign", "AllLevels lists level %d which was never registered successfully", l)
				}
			}
			for _, v := range q.Views {
				if !known[v.Level] {
					continue
				}
				kind := "builtin"
				c := reg.Customs[v.Level]
				if c != nil {
					kind = "custom"
					if v.String != c.Title {
						add("C17.title", "string", "level %d registered as %q prints as %q", v.Level, c.Title, v.String)
					}
				} else if v.String != "" {
					if other, dup := names[v.String]; dup && other != v.Level {
						add("C17.title", "builtin", "built-in levels %d and %d print the same name %q", other, v.Level, v.String)
					}
					names[v.String] = v.Level
				}
				caseKind := "lower"
				if v.String != strings.ToLower(v.String) {
					caseKind = "mixed"
				}
				if !v.ParseOK || v.Parsed != v.Level {
					add("C17.roundtrip.parse", kind+" title-case="+caseKind, "ParseLevel(%q) (the name printed for level %d) gives ok=%v level=%d", v.String, v.Level, v.ParseOK, v.Parsed)
				}
				if !v.TextOK || !v.UnTextOK || v.UnText != v.Level {
					add("C17.roundtrip.text", kind+" title-case="+caseKind, "level %d: MarshalText ok=%v %q, UnmarshalText ok=%v -> %d", v.Level, v.TextOK, v.Text, v.UnTextOK, v.UnText)
				}
				if !v.JSONOK || !v.UnJSONOK || v.UnJSON != v.Level {
					add("C17.roundtrip.json", kind+" title-case="+caseKind, "level %d: MarshalJSON ok=%v %s, UnmarshalJSON ok=%v -> %d", v.Level, v.JSONOK, v.JSON, v.UnJSONOK, v.UnJSON)
				}
				if !v.EncOK || !v.UnEncOK || v.UnEnc != v.Level {
					add("C17.roundtrip.encjson", kind+" title-case="+caseKind, "level %d through encoding/json: Marshal ok=%v %s, Unmarshal ok=%v -> %d", v.Level, v.EncOK, v.Enc, v.UnEncOK, v.UnEnc)
				}
				if v.JSONOK && !json.Valid([]byte(v.JSON)) {
					add("C17.roundtrip.json", "invalid", "MarshalJSON of level %d is not JSON: %s", v.Level, v.JSON)
				}
				if v.TagPanic != "" {
					add("C17.shorttag", "panic", "ShortTag of level %d panicked: %s", v.Level, v.TagPanic)
					continue
				}
				for n := 1; n <= 5 && n < len(v.ShortTags); n++ {
					given := ""
					if c != nil && n < len(c.Tags) {
						given = c.Tags[n]
					}
					switch {
					case given != "":
						if v.ShortTags[n] != given {
							add("C17.shorttag", "given", "level %d was registered with short tag %q for width %d but ShortTag(%d) = %q", v.Level, given, n, n, v.ShortTags[n])
						}
					case kind == "builtin" || !c17HasTags(c):
						// the width rule is stated for levels without custom tags; for a width that a
						// partly tagged level leaves out nothing is claimed
						if len([]rune(v.ShortTags[n])) != n {
							add("C17.shorttag", "width "+kind, "ShortTag(%d) of level %d (%q) is %q: %d characters", n, v.Level, v.String, v.ShortTags[n], len([]rune(v.ShortTags[n])))
						}
					}
				}
			}
			// titles answer
			for title, l := range names {
				_ = title
				_ = l
			}
			qq := q
			prevQ = &qq
			prevRaw = raw
			_ = prevRaw
		case "log":
			if !op.Probe {
				continue
			}
			c := reg.Customs[op.Lvl]
			if c == nil {
				continue // not a registered level: nothing claimed
			}
			wrote := map[int]int{}
			for _, w := range o.Writes {
				if containsTok(w.P, op.Tok) {
					wrote[w.W]++
				}
			}
			switch op.Kind {
			case "gate":
				want := reg.Admitted(int(op.I), op.Lvl, false)
				got := wrote[3] > 0
				if want == model.Admit && !got || want == model.Deny && got {
					ta := "raw value"
					if c.HasTreat {
						ta = "treated as " + model.LevelName(c.TreatAs)
					}
					add("C17.gate", fmt.Sprintf("treated=%v", c.HasTreat), "level %d (%s) on a logger at %s: emitted=%v, the admission rule says %v", op.Lvl, ta, model.LevelName(int(op.I)), got, want == model.Admit)
				}
			case "route":
				wantW := 1
				if c.ErrDev {
					wantW = 2
				}
				if wrote[wantW] != 1 || wrote[3-wantW] != 0 {
					add("C17.route", fmt.Sprintf("errdev=%v", c.ErrDev), "level %d (error device requested: %v): normal writer got %d, error writer got %d", op.Lvl, c.ErrDev, wrote[1], wrote[2])
				}
			}
		}
	}
	return dedupe(out)
}

func c17HasTags(c *model.Custom) bool {
	if c == nil {
		return false
	}
	for _, t := range c.Tags {
		if t != "" {
			return true
		}
	}
	return false
}

// c17Diff compares two registry queries on their common basis.
func c17Diff(a, b *c17Query, attempted int) string {
	if fmt.Sprint(a.All) != fmt.Sprint(b.All) {
		return fmt.Sprintf("AllLevels %v -> %v", a.All, b.All)
	}
	av := map[int]c17View{}
	for _, v := range a.Views {
		av[v.Level] = v
	}
	var ids []int
	for _, v := range b.Views {
		ids = append(ids, v.Level)
	}
	sort.Ints(ids)
	bv := map[int]c17View{}
	for _, v := range b.Views {
		bv[v.Level] = v
	}
	pk := make([]string, 0, len(b.Parses))
	for k := range b.Parses {
		pk = append(pk, k)
	}
	sort.Strings(pk)
	for _, k := range pk {
		if x, ok := a.Parses[k]; ok && x != b.Parses[k] {
			return fmt.Sprintf("ParseLevel(%q) %d -> %d", k, x, b.Parses[k])
		}
	}
	for _, id := range ids {
		x, ok := av[id]
		if !ok {
			continue
		}
		ja, _ := json.Marshal(x)
		jb, _ := json.Marshal(bv[id])
		if !bytes.Equal(ja, jb) {
			return fmt.Sprintf("level %d: %s -> %s", id, ja, jb)
		}
	}
	return ""
}

func (p *C17) Classify(sc *scen.Scenario, run *orch.Run) (string, bool) {
	var sb strings.Builder
	ops := indexOps(run)
	acc, ref := false, false
	for i := range sc.Setup {
		op := &sc.Setup[i]
		if op.Op != "register_level" {
			continue
		}
		var ret struct {
			OK bool `json:"ok"`
		}
		retInto(ops[opKey("setup", 0, i+1)], &ret)
		if ret.OK {
			acc = true
		} else {
			ref = true
		}
		fmt.Fprintf(&sb, "%d:%s:%v:", op.Lvl, op.Name, ret.OK)
		for _, o := range op.Opts {
			fmt.Fprintf(&sb, "%s%d%v,", o.Kind, o.Lvl, o.B)
		}
		sb.WriteByte(';')
	}
	return fmt.Sprintf("%x", scen.HashString(sb.String())), acc && ref
}
