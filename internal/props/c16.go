package props

import (
	"fmt"
	"strings"
	"time"
	_ "time/tzdata"

	"verif/internal/orch"
	"verif/internal/scen"
)

// C16 — timestamps show the record's instant in the configured zone and layout.
type C16 struct{}

func (*C16) ID() string     { return "C16" }
func (*C16) Level() string  { return "exploration" }
func (*C16) Engine() string { return "HIST" }
func (*C16) Rule() string {
	return "the simulated clock is the only clock logg reads: start instants from year 0001 to 9999 with arbitrary sub-second part, zones UTC / fixed offsets up to +-14h / named zones, time.Local varied, forward and backward jumps between calls; all 8 date/time/microseconds flag sets x local-time flag x UTC mode {unset, false, true} x layouts {unset, RFC3339Nano, Kitchen, RFC1123Z, date-only, custom with literal text} x 3 formats; records through ordinary verbs (instant = the clock read of that call) and WriteThru (explicit instant); the printed text must equal the instant, moved to the zone the statement gives, formatted with the logger layout or with the layout the flags select - which is recovered, after every change of the flags, from what a calibration logger prints for Go's reference time (no layout text is taken from logg's source), must be the same for every logger and format, must show date / time of day / microseconds as the flags say wherever the flag names leave no doubt, and must show the zone whenever it shows a time of day; distinct = (flag set, mode, layout, zone class, format, entry); non-trivial = every case (each is a distinct configuration cell)"
}

func (*C16) Plan(tier string) orch.Plan {
	n := 4000
	if tier == "thorough" {
		n = 400000
	}
	return orch.Plan{Episodes: n, Batch: 1}
}

var c16Layouts = []string{"", "", time.RFC3339Nano, time.Kitchen, time.RFC1123Z, "2006-01-02", "2006/01/02 at 15h04m05.000 (Z07:00)", time.StampMicro}

var c16Zones = []string{"UTC", "+08:00", "-03:30", "+14:00", "-12:00", "+05:45", "America/New_York", "Europe/Berlin", "Asia/Kolkata", "Australia/Lord_Howe"}

// Calibration instants: the layout the flags select is not taken from logg's source. It is
// recovered from what logg prints for Go's reference time (whose rendering under a layout is
// that layout, up to the Z-versus-numeric zone form and the 0-versus-9 fraction style, which
// two more instants settle): cal1 = the reference time in a zone called MST at -07:00,
// cal2 = the same wall clock in UTC, cal3 = cal1 + 0.111111111 s.
const (
	c16CalS    = 1136239445 // 2006-01-02T15:04:05-07:00
	c16CalSUTC = 1136214245 // 2006-01-02T15:04:05Z
	c16CalZone = "MST-7"
)

func c16CalOps() []scen.Op {
	return []scen.Op{
		{Op: "write_thru", L: 9, Lvl: 4, Kind: "cal", T: &scen.TimeSpec{S: c16CalS, Zone: c16CalZone}, Msg: "cal1", Tok: "cal1"},
		{Op: "write_thru", L: 9, Lvl: 4, Kind: "cal", T: &scen.TimeSpec{S: c16CalSUTC, Zone: "UTC"}, Msg: "cal2", Tok: "cal2"},
		{Op: "write_thru", L: 9, Lvl: 4, Kind: "cal", T: &scen.TimeSpec{S: c16CalS, Ns: 111111111, Zone: c16CalZone}, Msg: "cal3", Tok: "cal3"},
	}
}

func c16FlagOp(op string) bool {
	switch op {
	case "add_flags", "remove_flags", "save_flags", "restore_flags", "set_flags", "reset_flags":
		return true
	}
	return false
}

// c16Recover rebuilds the layout from the three calibration texts.
func c16Recover(r1, r2, r3 string) (string, error) {
	diff := func(a, b string) (pre int, ma, mb string) {
		for pre < len(a) && pre < len(b) && a[pre] == b[pre] {
			pre++
		}
		suf := 0
		for suf < len(a)-pre && suf < len(b)-pre && a[len(a)-1-suf] == b[len(b)-1-suf] {
			suf++
		}
		return pre, a[pre : len(a)-suf], b[pre : len(b)-suf]
	}
	lay := []byte(r1)
	// zone form: cal2 is the same wall clock in UTC, so only the zone part differs
	if r1 != r2 {
		pre, _, m2 := diff(r1, r2)
		if m2 == "Z" {
			// Z-form: "-07..." in the layout becomes "Z07..."
			if pre >= len(lay) || lay[pre] != '-' {
				return "", fmt.Errorf("zone part not understood: %q vs %q", r1, r2)
			}
			lay[pre] = 'Z'
		}
	}
	// fraction style: where cal3 (+0.111111111 s) differs from cal1
	if r1 != r3 {
		pre, m1, m3 := diff(r1, r3)
		switch {
		case m1 == "" && len(m3) >= 2 && strings.Trim(m3[1:], "1") == "" && (m3[0] == '.' || m3[0] == ','):
			// 9-style: digits appear only when non-zero
			ins := string(m3[0]) + strings.Repeat("9", len(m3)-1)
			lay = append(append(append([]byte{}, lay[:pre]...), ins...), lay[pre:]...)
		case m1 != "" && strings.Trim(m1, "0") == "" && strings.Trim(m3, "1") == "" && len(m1) == len(m3):
			// 0-style: cal1 already shows the zeros
		default:
			return "", fmt.Errorf("fraction part not understood: %q vs %q", r1, r3)
		}
	}
	return string(lay), nil
}

// semantic facts about a layout, found by formatting (no inspection of the layout text)
type c16Facts struct {
	date, clock, zone bool
	res               time.Duration // smallest step in {1ns, 1us, 1ms, 1s, 1m, 1h} that changes the text
}

func c16FactsOf(layout string) c16Facts {
	base := time.Date(2011, 11, 11, 11, 11, 11, 111111111, time.FixedZone("X", 3*3600))
	f := c16Facts{}
	f.date = base.Format(layout) != base.AddDate(0, 0, 1).Format(layout) || base.Format(layout) != base.AddDate(1, 1, 0).Format(layout)
	for _, d := range []time.Duration{time.Nanosecond, time.Microsecond, time.Millisecond, time.Second, time.Minute, time.Hour} {
		if base.Format(layout) != base.Add(d).Format(layout) {
			f.res = d
			break
		}
	}
	f.clock = f.res != 0 && f.res <= time.Second
	f.zone = base.Format(layout) != base.In(time.FixedZone("Y", -5*3600)).Add(8*time.Hour).Format(layout)
	return f
}

func (p *C16) Gen(seed uint64, i int, tier string) *scen.Scenario {
	r := scen.NewRng(scen.Mix(seed, scen.HashString("C16"), uint64(i)))
	sc := &scen.Scenario{Property: "C16", Engine: "HIST", Seed: scen.Mix(seed, 116, uint64(i)) >> 12}
	sc.World.Isolated = true
	sc.World.Flags = []string{"LnoInterrupt"}
	sc.World.NoFlags = []string{"Lcaller"}
	// instants: year 0001 .. 9999
	var startS int64
	switch r.Intn(6) {
	case 0:
		startS = -62135596800 + int64(r.Intn(400*86400)) + 86400
	case 1:
		startS = 253402300799 - 86400 - int64(r.Intn(400*86400))
	case 2:
		startS = int64(r.Intn(86400 * 3)) // around the epoch
	default:
		startS = -62135596800 + 86400 + int64(r.U64()%uint64(253402300799+62135596800-2*86400))
	}
	startNs := int64(r.Intn(1000000000))
	switch r.Intn(6) {
	case 0:
		startNs = 0
	case 1:
		startNs = int64(r.Intn(1000)) * 1000000 // whole milliseconds
	}
	sc.World.Clock = scen.Clock{StartS: startS, StartNs: startNs, TickNs: scen.Pick(r, []int64{1, 1, 1000, 1000000}),
		MinStep: 1, MaxStep: 5000000, Zone: scen.Pick(r, c16Zones), Local: scen.Pick(r, []string{"", "", "+02:00", "America/New_York"})}

	// flags: every subset of date/time/microseconds, local-time on/off
	var add, rem []string
	for _, f := range []string{"Ldate", "Ltime", "Lmicroseconds", "LlocalTime"} {
		if r.Bool() {
			add = append(add, f)
		} else {
			rem = append(rem, f)
		}
	}
	sc.Setup = append(sc.Setup, scen.Op{Op: "remove_flags", S: rem}, scen.Op{Op: "add_flags", S: add})
	// the calibration logger: logfmt, zone as given, no layout of its own
	sc.Setup = append(sc.Setup, scen.Op{Op: "new_root", R: 9, Name: "cal", Named: true, Opts: []scen.Op{{Kind: "writer", W: 9}, {Kind: "errwriter", W: 9}, {Kind: "level", Lvl: 8},
		{Kind: "color", B: []bool{false}}, {Kind: "utc", B: []bool{false}}}})
	format := scen.Pick(r, []string{"json", "color", "logfmt"})
	op := scen.Op{Op: "new_root", R: 1, Name: "t", Named: true, Opts: []scen.Op{{Kind: "writer", W: 1}, {Kind: "errwriter", W: 1}, {Kind: "level", Lvl: 8}}}
	switch format {
	case "json":
		op.Opts = append(op.Opts, scen.Op{Kind: "json", B: []bool{true}})
	case "logfmt":
		op.Opts = append(op.Opts, scen.Op{Kind: "color", B: []bool{false}})
	}
	if lay := scen.Pick(r, c16Layouts); lay != "" {
		op.Opts = append(op.Opts, scen.Op{Kind: "timefmt", S: []string{lay}})
	}
	switch r.Intn(3) {
	case 1:
		op.Opts = append(op.Opts, scen.Op{Kind: "utc", B: []bool{false}})
	case 2:
		op.Opts = append(op.Opts, scen.Op{Kind: "utc", B: []bool{true}})
	}
	sc.Setup = append(sc.Setup, op)
	useHandler := r.Chance(1, 3)
	if useHandler {
		// a log/slog handler on the logger, configured so that the logger keeps the format chosen above
		h := scen.Op{Op: "slog_handler", L: 1, R: 1}
		switch format {
		case "json":
			h.S = []string{"json", "nocolor"}
		case "logfmt":
			h.S = []string{"nocolor"}
		}
		sc.Setup = append(sc.Setup, h)
	}
	useBridge := r.Chance(1, 4)
	if useBridge {
		// a std log.Logger on the logger: its records take their instant from the clock inside WriteInternal
		sc.Setup = append(sc.Setup, scen.Op{Op: "bridge_new", L: 1, R: 5, Lvl: 4})
	}
	n := r.Range(3, 10)
	saved := 0
	for k := 0; k < n; k++ {
		t := tok(k + 1)
		switch c := r.Intn(10); {
		case c < 2:
			// jump, possibly backwards, but stay inside years 0001..9999
			d := int64(r.Intn(400*86400)) - 200*86400
			sc.Setup = append(sc.Setup, scen.Op{Op: "clock_jump", I: d, J: int64(r.Intn(1000000000))})
		case c < 4:
			// occasionally change a setting mid-way (Set* on the same logger)
			switch r.Intn(5) {
			case 3:
				// SaveFlagsAndMod(adding, removing...) ... and its restore function later
				var fl []string
				for _, f := range []string{"Ldate", "Ltime", "Lmicroseconds", "LlocalTime"} {
					switch r.Intn(3) {
					case 0:
						fl = append(fl, f)
					case 1:
						fl = append(fl, "-"+f)
					}
				}
				sc.Setup = append(sc.Setup, scen.Op{Op: "save_flags", S: fl})
				saved++
			case 4:
				if saved > 0 {
					sc.Setup = append(sc.Setup, scen.Op{Op: "restore_flags"})
					saved--
				}
			case 0:
				sc.Setup = append(sc.Setup, scen.Op{Op: "set", L: 1, Kind: "utc", B: []bool{r.Bool()}})
			case 1:
				if lay := scen.Pick(r, c16Layouts); lay != "" {
					sc.Setup = append(sc.Setup, scen.Op{Op: "set", L: 1, Kind: "timefmt", S: []string{lay}})
				}
			default:
				f := scen.Pick(r, []string{"Ldate", "Ltime", "Lmicroseconds", "LlocalTime"})
				sc.Setup = append(sc.Setup, scen.Op{Op: scen.Pick(r, []string{"add_flags", "remove_flags"}), S: []string{f}})
			}
		}
		if r.Chance(1, 3) {
			ts := &scen.TimeSpec{S: -62135596800 + 86400 + int64(r.U64()%uint64(253402300799+62135596800-2*86400)), Ns: int64(r.Intn(1000000000)), Zone: scen.Pick(r, c16Zones)}
			switch r.Intn(8) {
			case 0:
				ts.Ns = 0
			case 1:
				ts.S = -62135596800 + 86400 + int64(r.Intn(900*365*86400)) // years 0001..0900
			case 2:
				ts.Ns = int64(r.Intn(1000)) * 1000
			}
			if sc.World.Clock.Local != "" && r.Chance(1, 3) {
				// an instant that carries time.Local itself (what time.Now() and Time.Local() return), with the
				// process's local zone set to something else than what the process started with
				ts.Zone = "Local"
			}
			switch r.Intn(12) {
			case 0:
				ts.S, ts.Ns = -62135596800, 0 // 0001-01-01T00:00:00Z exactly (the zero time.Time)
			case 1:
				ts.S, ts.Ns = 0, 0 // the Unix epoch
			case 2:
				ts.S, ts.Ns = 253402300799, 999999999 // the last instant of year 9999
			}
			if useHandler && r.Bool() && !(ts.S == -62135596800 && ts.Ns == 0) {
				// (a log/slog record whose Time is the zero time has no time by log/slog's own contract: what the
				// adapter prints for it is not decided by "the record's own instant"; WriteThru gets that instant)
				// an explicit slog.Record handed to Enabled+Handle (level Info..Error so that it is admitted)
				sc.Setup = append(sc.Setup, scen.Op{Op: "handler_handle", L: 1, Lvl: scen.Pick(r, []int{0, 4, 8}), T: ts, Msg: "m" + t, Tok: t, Probe: true, Kind: "force"})
				continue
			}
			sc.Setup = append(sc.Setup, scen.Op{Op: "write_thru", L: 1, Lvl: 4, T: ts, Msg: "m" + t, Tok: t, Probe: true})
			if r.Chance(1, 3) {
				// a burst: more records in the same Unix second, other zones and sub-second parts
				for q := r.Range(1, 3); q > 0; q-- {
					k++
					t2 := tok(100 + k)
					ts2 := &scen.TimeSpec{S: ts.S, Ns: int64(r.Intn(1000000000)), Zone: scen.Pick(r, c16Zones)}
					sc.Setup = append(sc.Setup, scen.Op{Op: "write_thru", L: 1, Lvl: 4, T: ts2, Msg: "m" + t2, Tok: t2, Probe: true})
				}
			}
		} else if useBridge && r.Chance(1, 2) {
			sc.Setup = append(sc.Setup, scen.Op{Op: "bridge_print", L: 5, Kind: scen.Pick(r, []string{"", "println", "printf"}), Msg: "m" + t, Tok: t, Probe: true})
		} else {
			sc.Setup = append(sc.Setup, scen.Op{Op: "log", L: 1, Entry: scen.Pick(r, []string{"Info", "Warn", "InfoContext", "LogAttrs", "Infof", "Print"}), Lvl: 4, Msg: "m" + t, Tok: t, Probe: true})
		}
	}
	// calibrate after every change of the flags, before the next probe
	var withCal []scen.Op
	dirty := true
	for _, op := range sc.Setup {
		if c16FlagOp(op.Op) {
			dirty = true
		}
		if op.Probe && dirty {
			withCal = append(withCal, c16CalOps()...)
			dirty = false
		}
		withCal = append(withCal, op)
	}
	sc.Setup = withCal
	return sc
}

// WellFormed: every probe is preceded by a complete calibration made under the flags in force.
func (p *C16) WellFormed(sc *scen.Scenario) bool {
	have := 0
	calLogger, bridge := false, false
	for i := range sc.Setup {
		op := &sc.Setup[i]
		switch {
		case op.Op == "new_root" && op.R == 9:
			want := []scen.Op{{Kind: "writer", W: 9}, {Kind: "errwriter", W: 9}, {Kind: "level", Lvl: 8}, {Kind: "color", B: []bool{false}}, {Kind: "utc", B: []bool{false}}}
			if len(op.Opts) != len(want) {
				return false
			}
			for k := range want {
				o := op.Opts[k]
				if o.Kind != want[k].Kind || o.W != want[k].W || o.Lvl != want[k].Lvl || len(o.B) != len(want[k].B) || (len(o.B) == 1 && o.B[0] != want[k].B[0]) {
					return false
				}
			}
			calLogger = true
		case op.L == 9 && op.Op != "write_thru", op.R == 9 && op.Op != "new_root":
			return false // nothing else may touch the calibration logger
		case c16FlagOp(op.Op):
			have = 0
		case op.Op == "write_thru" && op.Kind == "cal":
			want := c16CalOps()
			if !calLogger || have >= 3 || op.L != 9 || op.T == nil || *op.T != *want[have].T || op.Tok != want[have].Tok || op.Lvl != 4 || op.Probe {
				return false
			}
			have++
		case op.Op == "bridge_new":
			if op.L != 1 || op.R != 5 || op.Lvl != 4 {
				return false
			}
			bridge = true
		case op.Probe:
			if have != 3 || (op.Op == "bridge_print" && (!bridge || op.L != 5)) {
				return false
			}
		}
	}
	return true
}

func c16Zone(z string) *time.Location {
	switch {
	case z == "" || z == "UTC":
		return time.UTC
	case z == c16CalZone:
		return time.FixedZone("MST", -7*3600)
	case z[0] == '+' || z[0] == '-':
		var hh, mm int
		fmt.Sscanf(z[1:], "%d:%d", &hh, &mm)
		off := hh*3600 + mm*60
		if z[0] == '-' {
			off = -off
		}
		return time.FixedZone(z, off)
	}
	if loc, err := time.LoadLocation(z); err == nil {
		return loc
	}
	return time.UTC
}

func (p *C16) Check(sc *scen.Scenario, run *orch.Run, env *orch.Env) []orch.Violation {
	var out []orch.Violation
	if worldDied(run) {
		return []orch.Violation{{Rule: "C16.terminated", Witness: "world", Detail: fmt.Sprintf("world ended early exit=%d stderr=%.300q", run.ExitCode, lastLines(run.Stderr, 300))}}
	}
	ops := indexOps(run)
	// default flags: Ltime | Lmicroseconds | LlocalTime (LstdFlags)
	flags := map[string]bool{"Ltime": true, "Lmicroseconds": true, "LlocalTime": true}
	var savedFlags []map[string]bool
	calLayout := ""
	cal := map[string]string{}
	layout := ""
	utc := 0
	format := "color"
	apply := func(o *scen.Op) {
		switch o.Kind {
		case "timefmt":
			if len(o.S) > 0 && o.S[len(o.S)-1] != "" {
				layout = o.S[len(o.S)-1]
			}
		case "utc":
			utc = 2
			if len(o.B) > 0 && !o.B[len(o.B)-1] {
				utc = 1
			}
		case "json", "color":
			st := map[string]int{"color": fmtColor, "json": fmtJSON, "logfmt": fmtLogfmt}[format]
			format = []string{"color", "json", "logfmt"}[fmtApply(st, o.Kind, o.B)]
		}
	}
	for i := range sc.Setup {
		op := &sc.Setup[i]
		o := ops[opKey("setup", 0, i+1)]
		if o == nil || o.Skipped {
			continue
		}
		if o.Panic != nil {
			out = append(out, orch.Violation{Rule: "C16.panic", Witness: op.Op + op.Entry, Detail: "panicked: " + o.Panic.S})
			continue
		}
		if c16FlagOp(op.Op) {
			calLayout = ""
			cal = map[string]string{}
		}
		switch op.Op {
		case "add_flags", "remove_flags":
			for _, f := range op.S {
				flags[f] = op.Op == "add_flags"
			}
		case "save_flags":
			cp := map[string]bool{}
			for k, v := range flags {
				cp[k] = v
			}
			savedFlags = append(savedFlags, cp)
			// all additions are applied before the removals
			for _, f := range op.S {
				if !strings.HasPrefix(f, "-") {
					flags[f] = true
				}
			}
			for _, f := range op.S {
				if strings.HasPrefix(f, "-") {
					flags[f[1:]] = false
				}
			}
		case "restore_flags":
			if n := len(savedFlags); n > 0 {
				for k := range flags {
					delete(flags, k)
				}
				for k, v := range savedFlags[n-1] {
					flags[k] = v
				}
				savedFlags = savedFlags[:n-1]
			}
		case "new_root":
			if op.R != 1 {
				continue
			}
			for k := range op.Opts {
				apply(&op.Opts[k])
			}
		case "set":
			if op.L == 1 {
				apply(op)
			}
		case "log", "write_thru", "handler_handle", "bridge_print":
			if op.Op == "write_thru" && op.Kind == "cal" {
				if len(o.Writes) != 1 {
					out = append(out, orch.Violation{Rule: "C16.probe", Witness: "writes", Detail: fmt.Sprintf("calibration record %s produced %d writes", op.Tok, len(o.Writes))})
					continue
				}
				text, ok := timeText(o.Writes[0].P)
				if !ok {
					out = append(out, orch.Violation{Rule: "C16.notime", Witness: "format=logfmt", Detail: fmt.Sprintf("no timestamp found in %.120q", o.Writes[0].P)})
					continue
				}
				cal[op.Tok] = text
				if op.Tok != "cal3" || cal["cal1"] == "" || cal["cal2"] == "" {
					continue
				}
				fl := fmt.Sprintf("date=%v time=%v micro=%v", flags["Ldate"], flags["Ltime"], flags["Lmicroseconds"])
				L, err := c16Recover(cal["cal1"], cal["cal2"], cal["cal3"])
				if err == nil {
					// the recovered layout must reproduce the three calibration texts
					for k, ts := range c16CalOps() {
						if got := time.Unix(ts.T.S, ts.T.Ns).In(c16Zone(ts.T.Zone)).Format(L); got != cal[ts.Tok] {
							err = fmt.Errorf("layout %q recovered from the reference time gives %q for calibration instant %d, logg printed %q", L, got, k+1, cal[ts.Tok])
							break
						}
					}
				}
				if err != nil {
					out = append(out, orch.Violation{Rule: "C16.text", Witness: "layout=false calibration", Detail: fmt.Sprintf("flags %s: the reference time 2006-01-02T15:04:05-07:00 (MST) / the same wall clock in UTC / +0.111111111s were printed as %q / %q / %q, which is not the reference time under any one layout: %v", fl, cal["cal1"], cal["cal2"], cal["cal3"], err)})
					continue
				}
				calLayout = L
				// what the flags promise about the selected layout (only where the flag names leave no doubt)
				d, t, m := flags["Ldate"], flags["Ltime"], flags["Lmicroseconds"]
				f := c16FactsOf(L)
				if (d || t) && !(d && m && !t) {
					switch {
					case f.date != d:
						out = append(out, orch.Violation{Rule: "C16.flags", Witness: "date " + fl, Detail: fmt.Sprintf("flags %s select layout %q, which shows the date: %v", fl, L, f.date)})
					case f.clock != t:
						out = append(out, orch.Violation{Rule: "C16.flags", Witness: "time " + fl, Detail: fmt.Sprintf("flags %s select layout %q, which shows the time of day to the second: %v", fl, L, f.clock)})
					case t && (f.res <= time.Microsecond) != m:
						out = append(out, orch.Violation{Rule: "C16.flags", Witness: "microseconds " + fl, Detail: fmt.Sprintf("flags %s select layout %q, whose resolution is %v", fl, L, f.res)})
					}
				}
				if f.clock && !f.zone {
					out = append(out, orch.Violation{Rule: "C16.flags", Witness: "nozone " + fl, Detail: fmt.Sprintf("flags %s select layout %q, which shows a time of day without its zone: parsing cannot give back the instant", fl, L)})
				}
				continue
			}
			if !op.Probe {
				continue
			}
			if len(o.Writes) != 1 {
				out = append(out, orch.Violation{Rule: "C16.probe", Witness: "writes", Detail: fmt.Sprintf("probe %s produced %d writes", op.Tok, len(o.Writes))})
				continue
			}
			var inst time.Time
			var moreInst []time.Time
			entry := op.Entry
			if op.Op == "bridge_print" {
				entry = "log.Logger(bridge)." + map[string]string{"": "Print", "println": "Println", "printf": "Printf"}[op.Kind]
			}
			if op.Op == "write_thru" || op.Op == "handler_handle" {
				entry = "WriteThru"
				if op.Op == "handler_handle" {
					entry = "slog.Handler.Handle"
				}
				zone := op.T.Zone
				if zone == "Local" {
					zone = sc.World.Clock.Local // what the world set time.Local to
				}
				inst = time.Unix(op.T.S, op.T.Ns).In(c16Zone(zone))
			} else {
				// the record's own instant is a clock read of the call (exactly one on the pinned tree; an
				// implementation that reads the clock again for something else is not wrong, so any of
				// the reads may be the one that is printed)
				if len(o.Clocks) == 0 {
					// the call did not go through the clock seam: nothing can be decided (harness trouble, not a verdict)
					out = append(out, orch.Violation{Rule: "HARNESS.clock", Witness: "unobserved", Detail: fmt.Sprintf("%s printed a timestamp without reading the simulated clock", entry)})
					continue
				}
				for _, c := range o.Clocks {
					var sec int64
					if _, err := fmt.Sscanf(c.S, "%d", &sec); err != nil {
						continue
					}
					t := time.Unix(sec, int64(c.N)).In(c16Zone(sc.World.Clock.Zone))
					if inst.IsZero() {
						inst = t
					} else {
						moreInst = append(moreInst, t)
					}
				}
			}
			if op.Op == "handler_handle" && op.T.S == -62135596800 && op.T.Ns == 0 {
				continue // no time by log/slog's contract, see Gen
			}
			text, ok := timeText(o.Writes[0].P)
			if !ok {
				out = append(out, orch.Violation{Rule: "C16.notime", Witness: "format=" + format, Detail: fmt.Sprintf("no timestamp found in %.120q", o.Writes[0].P)})
				continue
			}
			wantUTC := utc == 2 || (utc == 0 && !flags["LlocalTime"])
			shown := inst
			if wantUTC {
				shown = inst.UTC()
			}
			var cands []string
			if layout != "" {
				cands = []string{layout}
			} else {
				if calLayout == "" {
					continue // no usable calibration under these flags (reported above, or removed from the document)
				}
				cands = []string{calLayout}
			}
			match := false
			var wants []string
			for _, c := range cands {
				w := shown.Format(c)
				wants = append(wants, w)
				if w == text {
					match = true
				}
				for _, t := range moreInst {
					if wantUTC {
						t = t.UTC()
					}
					if t.Format(c) == text {
						match = true
					}
				}
			}
			if !match {
				// classify: wrong zone or wrong layout/instant?
				rule, wit := "C16.text", fmt.Sprintf("layout=%v", layout != "")
				other := inst
				if !wantUTC {
					other = inst.UTC()
				}
				for _, c := range cands {
					if other.Format(c) == text && other.Format(c) != shown.Format(c) {
						rule, wit = "C16.zone", fmt.Sprintf("utcmode=%d localflag=%v", utc, flags["LlocalTime"])
					}
				}
				out = append(out, orch.Violation{Rule: rule, Witness: wit,
					Detail: fmt.Sprintf("%s record %s: printed time %q; instant %s, UTC mode %d, LlocalTime=%v, layout %q, flags date=%v time=%v micro=%v => expected %q",
						entry, op.Tok, text, inst.Format(time.RFC3339Nano), utc, flags["LlocalTime"], layout, flags["Ldate"], flags["Ltime"], flags["Lmicroseconds"], strings.Join(wants, "\" or \""))})
			}
		}
	}
	return dedupe(out)
}

func (p *C16) Classify(sc *scen.Scenario, run *orch.Run) (string, bool) {
	var sb strings.Builder
	for i := range sc.Setup {
		op := &sc.Setup[i]
		switch op.Op {
		case "add_flags", "remove_flags", "save_flags", "restore_flags":
			fmt.Fprintf(&sb, "%s%v;", op.Op, op.S)
		case "new_root":
			for _, o := range op.Opts {
				fmt.Fprintf(&sb, "%s%v%v;", o.Kind, o.B, o.S)
			}
		case "set":
			fmt.Fprintf(&sb, "set%s%v%v;", op.Kind, op.B, op.S)
		case "log":
			sb.WriteString(op.Entry + ";")
		case "bridge_print":
			sb.WriteString("bridge" + op.Kind + ";")
		case "write_thru", "handler_handle":
			sb.WriteString(op.Op[:2] + op.T.Zone + ";")
		}
	}
	z := sc.World.Clock.Zone
	fmt.Fprintf(&sb, "zone=%s local=%s", z, sc.World.Clock.Local)
	return fmt.Sprintf("%x", scen.HashString(sb.String())), true
}
