package props

import (
	"encoding/json"
	"fmt"
	"strings"

	"verif/internal/orch"
	"verif/internal/scen"
)

// C19 — PrintCtx's buffer API behaves exactly like bytes.Buffer.
type C19 struct{}

func (*C19) ID() string     { return "C19" }
func (*C19) Level() string  { return "exploration" }
func (*C19) Engine() string { return "BUF" }
func (*C19) Rule() string {
	return "seeded histories of <=60 calls of the 20 listed methods on a PrintCtx and a bytes.Buffer built from the same initial bytes (nil, empty, pre-filled up to 4096, string constructor), arguments at the boundaries (0, negative, len, len+-1, 63..65, 511..513, 2*cap, maxInt-k; never sizes that would really allocate more than 1 MiB), runes incl. negative, surrogates and > 0x10FFFF, ReadFrom/WriteTo against fault-injecting peers (chunked reads, data+EOF, zero-byte reads, mid-stream error, negative count, count > len, panic; short write, partial write with error, invalid counts) with an identical fault script for both; after every call results, error identity, panic and remaining contents are compared; distinct = hash of the op sequence; non-trivial = a read after a write after a read, or a faulted ReadFrom/WriteTo"
}

func (*C19) Plan(tier string) orch.Plan {
	n := 40000
	if tier == "thorough" {
		n = 3000000
	}
	return orch.Plan{Episodes: n, Batch: 250,
		RealStub: map[string][]string{
			"real": {"slog.PrintCtx buffer methods (real code)", "bytes.Buffer of the default toolchain (reference, run in lock-step)"},
			"stub": {"io.Reader / io.Writer peers of ReadFrom / WriteTo (fault scripts)"},
		}}
}

const maxInt = int(^uint(0) >> 1)

func (p *C19) Gen(seed uint64, i int, tier string) *scen.Scenario {
	r := scen.NewRng(scen.Mix(seed, scen.HashString("C19"), uint64(i)))
	sc := &scen.Scenario{Property: "C19", Engine: "BUF", Seed: scen.Mix(seed, 119, uint64(i)) >> 12}
	b := &scen.BufScenario{}
	data := func(n int) []byte {
		d := make([]byte, n)
		for k := range d {
			switch r.Intn(8) {
			case 0:
				d[k] = '\n'
			case 1:
				d[k] = byte(r.Intn(256))
			default:
				d[k] = byte('a' + r.Intn(26))
			}
		}
		return d
	}
	sizes := []int{0, 1, 2, 7, 63, 64, 65, 100, 511, 512, 513, 1000, 4096}
	switch r.Intn(5) {
	case 0:
		b.NilInit = true
	case 1:
		b.Init = []byte{}
	case 2:
		b.Init = data(scen.Pick(r, sizes))
		b.Str = true
	default:
		b.Init = data(scen.Pick(r, sizes))
	}
	curLen := len(b.Init)
	n := r.Range(1, 60)
	peers := func(reader bool) []scen.PeerStep {
		var ps []scen.PeerStep
		kinds := []string{"ok", "ok", "ok", "eof", "dataeof", "zero", "err", "wrapeof", "unexpeof", "neg", "over", "panic"}
		if !reader {
			kinds = []string{"ok", "ok", "short", "err", "over", "neg", "panic"}
		}
		for k := r.Range(0, 5); k > 0; k-- {
			ps = append(ps, scen.PeerStep{Kind: scen.Pick(r, kinds), N: scen.Pick(r, []int{0, 1, 3, 64, 511, 512, 513, 700, 5000})})
		}
		return ps
	}
	for k := 0; k < n; k++ {
		var op scen.BufOp
		boundary := []int{0, 1, -1, curLen, curLen + 1, curLen - 1, curLen / 2, 63, 64, 65, 511, 512, 513, 2 * curLen, 4096, 70000}
		switch r.Intn(24) {
		case 0, 1:
			op = scen.BufOp{Op: "Write", Data: data(scen.Pick(r, sizes))}
		case 2:
			op = scen.BufOp{Op: "WriteString", Data: data(scen.Pick(r, sizes))}
		case 3:
			op = scen.BufOp{Op: "WriteByte", N: r.Intn(256)}
		case 4:
			op = scen.BufOp{Op: "WriteRune", R: scen.Pick(r, []int32{'a', 0x7f, 0x80, 0x7ff, 0x800, 0xffff, 0x10000, 0x10ffff, 0x110000, -1, 0xd800, 0xdfff, 0xfffd, 0x20ac, 0})}
		case 5, 6:
			op = scen.BufOp{Op: "Read", N: scen.Pick(r, []int{0, 1, 2, 10, 64, 1000, curLen, curLen + 5, -1})}
		case 7:
			op = scen.BufOp{Op: "ReadByte"}
		case 8:
			op = scen.BufOp{Op: "ReadRune"}
		case 9:
			op = scen.BufOp{Op: "UnreadByte"}
		case 10:
			op = scen.BufOp{Op: "UnreadRune"}
		case 11:
			op = scen.BufOp{Op: "Next", N: scen.Pick(r, boundary)}
		case 12:
			op = scen.BufOp{Op: "ReadBytes", Delim: scen.Pick(r, []int{'\n', 'a', 0, 255})}
		case 13:
			op = scen.BufOp{Op: "ReadString", Delim: scen.Pick(r, []int{'\n', 'z', 0})}
		case 14, 15:
			op = scen.BufOp{Op: "ReadFrom", Peer: peers(true)}
		case 16, 17:
			op = scen.BufOp{Op: "WriteTo", Peer: peers(false)}
		case 18:
			op = scen.BufOp{Op: "Truncate", N: scen.Pick(r, boundary)}
		case 19:
			g := scen.Pick(r, append(boundary, maxInt, maxInt-1, maxInt-64, maxInt-513, maxInt-4000))
			if g > 1<<20 && g < maxInt-4096 {
				g = 4096
			}
			op = scen.BufOp{Op: "Grow", N: g}
		case 20:
			op = scen.BufOp{Op: "Reset"}
		case 21:
			op = scen.BufOp{Op: "Len"}
		case 22:
			op = scen.BufOp{Op: "Bytes"}
		default:
			op = scen.BufOp{Op: "String"}
		}
		switch op.Op {
		case "Write", "WriteString":
			curLen += len(op.Data)
		case "Reset":
			curLen = 0
		case "Read", "Next":
			if op.N > 0 {
				curLen -= op.N
			}
		}
		if curLen < 0 {
			curLen = 0
		}
		b.Ops = append(b.Ops, op)
	}
	sc.Buf = b
	return sc
}

func (p *C19) Check(sc *scen.Scenario, run *orch.Run, env *orch.Env) []orch.Violation {
	var out []orch.Violation
	if run.Result == nil || run.Result.Err != "" {
		msg := "no result"
		if run.Result != nil {
			msg = run.Result.Err
		}
		// the lock-step interpreter recovers every panic of an op, so an error here is a harness problem or a process death
		return []orch.Violation{{Rule: "C19.harness", Witness: "world", Detail: fmt.Sprintf("%s exit=%d stderr=%.300q", msg, run.ExitCode, lastLines(run.Stderr, 300))}}
	}
	for _, e := range run.Events {
		if e.K != "bufmis" {
			continue
		}
		var v struct{ Impl, Ref string }
		_ = json.Unmarshal(e.V, &v)
		opName := e.S
		kind := "result"
		if strings.HasSuffix(opName, ":state") {
			kind = "state"
			opName = strings.TrimSuffix(opName, ":state")
		}
		if strings.HasPrefix(v.Ref, "panic(") != strings.HasPrefix(v.Impl, "panic(") {
			kind = "panic"
		}
		var prev []string
		for k := e.Op - 4; k < e.Op-1; k++ {
			if k >= 0 && sc.Buf != nil && k < len(sc.Buf.Ops) {
				prev = append(prev, sc.Buf.Ops[k].Op)
			}
		}
		out = append(out, orch.Violation{Rule: "C19.diverge", Witness: fmt.Sprintf("op=%s kind=%s", opName, kind),
			Detail: fmt.Sprintf("step %d %s (after %v): PrintCtx gives %.300s, bytes.Buffer gives %.300s", e.Op, e.S, prev, v.Impl, v.Ref)})
	}
	return out
}

func (p *C19) Classify(sc *scen.Scenario, run *orch.Run) (string, bool) {
	if sc.Buf == nil {
		return "", false
	}
	var sb strings.Builder
	state := 0 // read, then write, then read
	faulted := false
	for _, op := range sc.Buf.Ops {
		fmt.Fprintf(&sb, "%s:%d:%d:%d;", op.Op, op.N, len(op.Data), op.R)
		isRead := strings.HasPrefix(op.Op, "Read") || op.Op == "Next" || op.Op == "WriteTo"
		isWrite := strings.HasPrefix(op.Op, "Write") && op.Op != "WriteTo" || op.Op == "ReadFrom"
		if op.Op == "ReadFrom" {
			isRead = false
		}
		switch {
		case state == 0 && isRead, state == 2 && isRead:
			state++
		case state == 1 && isWrite:
			state++
		}
		for _, ps := range op.Peer {
			fmt.Fprintf(&sb, "%s%d,", ps.Kind, ps.N)
			if ps.Kind != "ok" {
				faulted = true
			}
		}
	}
	return fmt.Sprintf("%x", scen.HashString(sb.String())), state >= 3 || faulted
}
