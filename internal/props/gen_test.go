package props

import (
	"encoding/json"
	"testing"

	"verif/internal/scen"
)

// One integer decides everything: a generator is a function of (seed, index, tier) alone. Map
// iteration inside a generator would break that; so every generator is run several times per index
// (in fresh goroutine-free calls) and must produce the same document. It must also satisfy its own
// well-formedness guard.
func TestGeneratorsAreFunctions(t *testing.T) {
	for id, p := range All() {
		n := 1500
		idx := []int{}
		for i := 0; i < n; i++ {
			idx = append(idx, i)
		}
		if p.Plan("quick").RaceEpisodes > 0 {
			for i := 1; i <= 40; i++ {
				idx = append(idx, -i) // race-world episodes
			}
		}
		for _, i := range idx {
			a, _ := json.Marshal(p.Gen(7, i, "quick"))
			for rep := 0; rep < 3; rep++ {
				b, _ := json.Marshal(p.Gen(7, i, "quick"))
				if string(a) != string(b) {
					t.Fatalf("%s: episode %d is generated differently on a second call", id, i)
				}
			}
			if wf, ok := p.(interface {
				WellFormed(*scen.Scenario) bool
			}); ok && !wf.WellFormed(p.Gen(7, i, "quick")) {
				t.Fatalf("%s: episode %d does not satisfy the property's own well-formedness guard", id, i)
			}
		}
	}
}
