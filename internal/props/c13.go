package props

import (
	"fmt"
	"strings"

	"verif/internal/model"
	"verif/internal/orch"
	"verif/internal/scen"
)

// C13 — failing destinations: bounded reaction, no lost records elsewhere, recovery.
type C13 struct{}

func (*C13) ID() string     { return "C13" }
func (*C13) Level() string  { return "fault_enumeration" }
func (*C13) Engine() string { return "CONC" }
func (*C13) Rule() string {
	return "exhaustive core: for each of N configurations (1-3 normal, 1-3 error, 0-2 per-severity writers; logger level Error/Warn/Info/Debug; a sequence of 3-4 calls over the severity classes) every assignment of {succeed, fail} to the first K Write attempts of the episode (quick K=8, thorough K=10), followed by a fault-free tail; sampled part: longer call sequences with all fault kinds (error, partial write with error, short write without error, stalled device), faults aimed at the diagnostic's own write, 1-4 caller tasks under the seeded scheduler; per call: normal return, every non-failing selected destination has the whole record exactly once, at most one diagnostic and only at the warning destinations, attempt budget, nothing anywhere else; tail: full delivery; distinct = (configuration, fault assignment); non-trivial = a fault fired inside a call with >= 2 selected destinations, or on the diagnostic's own write; one configuration in five registers a destination a second time in the same list (1..k attempts are accepted for a destination registered k times, every other destination exactly one)"
}

func c13K(tier string) int {
	if tier == "thorough" {
		return 10
	}
	return 8
}

func c13Configs(tier string) int {
	if tier == "thorough" {
		return 60
	}
	return 12
}

func (*C13) Plan(tier string) orch.Plan {
	core := c13Configs(tier) << uint(c13K(tier))
	extra := 6000
	if tier == "thorough" {
		extra = 400000
	}
	return orch.Plan{Episodes: core + extra, Batch: 64, Exhaustive: true,
		Assumptions: []string{"exhaustive: true refers to the core (all fail/succeed assignments over the first K write attempts of each listed configuration); the rest is sampled"}}
}

var c13Sevs = []int{model.Error, model.Warn, model.Info, model.Debug, model.Fail, model.Always, model.OK, model.Panic, model.Fatal} // (Panic and Fatal do not terminate here: the no-interrupt flag is set)

// c13Config builds loggers/destinations and a call sequence from a seed.
func c13Config(r *scen.Rng, sc *scen.Scenario, nCalls int, tasks int) (tk int) {
	level := scen.Pick(r, []int{model.Error, model.Warn, model.Info, model.Debug})
	op := scen.Op{Op: "new_root", R: 1, Name: "f", Named: true}
	nextW := 1
	for _, class := range []string{"writer", "errwriter"} {
		lastWK := scen.Pick(r, []string{"plain", "logwriter", "levelsettable"})
		op.Opts = append(op.Opts, scen.Op{Kind: class, W: nextW, WK: lastWK})
		nextW++
		extra := r.Intn(3)
		if r.Chance(1, 12) {
			extra = r.Range(8, 14) // a long list: many members can fail on one record
		}
		// one configuration in five registers a destination a second time (the member just registered, or the
		// first one of the list): a list in which two members are the same destination
		dups := r.Chance(1, 5)
		firstW, firstWK := nextW-1, lastWK
		for k := extra; k > 0; k-- {
			if dups && r.Chance(1, 2) {
				if r.Chance(2, 3) {
					op.Opts = append(op.Opts, scen.Op{Kind: "add_" + class, W: nextW - 1, WK: lastWK})
				} else {
					op.Opts = append(op.Opts, scen.Op{Kind: "add_" + class, W: firstW, WK: firstWK})
				}
				continue
			}
			lastWK = "plain"
			op.Opts = append(op.Opts, scen.Op{Kind: "add_" + class, W: nextW, WK: "plain"})
			nextW++
		}
		if dups && extra == 0 {
			op.Opts = append(op.Opts, scen.Op{Kind: "add_" + class, W: firstW, WK: firstWK}, scen.Op{Kind: "add_" + class, W: nextW, WK: "plain"})
			nextW++
		}
	}
	for k := r.Intn(3); k > 0; k-- {
		op.Opts = append(op.Opts, scen.Op{Kind: "add_level_writer", Lvl: scen.Pick(r, []int{model.Warn, model.Error, model.Info, model.Always}), W: nextW, WK: "plain"})
		nextW++
	}
	op.Opts = append(op.Opts, scen.Op{Kind: "level", Lvl: level})
	switch r.Intn(3) {
	case 0:
		op.Opts = append(op.Opts, scen.Op{Kind: "json", B: []bool{true}})
	case 1:
		op.Opts = append(op.Opts, scen.Op{Kind: "color", B: []bool{false}})
	}
	sc.Setup = append(sc.Setup, op, scen.Op{Op: "set_debug_mode", B: []bool{false}})
	mkCall := func() scen.Op {
		tk++
		sev := scen.Pick(r, c13Sevs)
		name := sevEntryName[sev]
		entry := scen.Pick(r, []string{name, name + "Context", "LogAttrs"})
		o := scen.Op{Op: "log", L: 1, Entry: entry, Lvl: sev, Msg: "m" + tok(tk), Tok: tok(tk)}
		if r.Bool() {
			o.Args = []scen.Arg{{K: "key", S: "a"}, {K: "i", I: int64(tk)}}
		}
		return o
	}
	if tasks <= 1 {
		for k := 0; k < nCalls; k++ {
			sc.Setup = append(sc.Setup, mkCall())
		}
	} else {
		for t := 0; t < tasks; t++ {
			task := scen.Task{ID: t + 1}
			for k := 0; k < nCalls; k++ {
				task.Ops = append(task.Ops, mkCall())
			}
			sc.Tasks = append(sc.Tasks, task)
		}
	}
	return tk
}

func (p *C13) Gen(seed uint64, i int, tier string) *scen.Scenario {
	sc := &scen.Scenario{Property: "C13", Engine: "CONC", Seed: scen.Mix(seed, 113, uint64(i)) >> 12}
	sc.World.Flags = []string{"LnoInterrupt"}
	sc.World.NoFlags = []string{"Lcaller"}
	sc.World.Clock = scen.Clock{TickNs: 1, MinStep: 40, MaxStep: 400}
	K := c13K(tier)
	core := c13Configs(tier) << uint(K)
	var tk int
	if i < core {
		cfg, mask := i>>uint(K), i&(1<<uint(K)-1)
		r := scen.NewRng(scen.Mix(seed, scen.HashString("C13cfg"), uint64(cfg)))
		tk = c13Config(r, sc, r.Range(3, 4), 1)
		for k := 0; k < K; k++ {
			if mask&(1<<uint(k)) != 0 {
				sc.Faults = append(sc.Faults, scen.Fault{W: -1, Attempt: k, Kind: "err"})
			}
		}
		sc.Note = fmt.Sprintf("core cfg=%d mask=%d", cfg, mask)
		// the tail starts after the K-th attempt for sure once 2K more attempts went by; simply add calls
	} else {
		r := scen.NewRng(scen.Mix(seed, scen.HashString("C13"), uint64(i)))
		tasks := 1
		if r.Chance(1, 3) {
			tasks = r.Range(2, 4)
			sc.Sched = scen.SchedCfg{StayPermille: r.Range(300, 950)}
		}
		tk = c13Config(r, sc, r.Range(1, 12), tasks)
		// faults over the expected attempt range; some aimed by writer (hits diagnostics on the error writers too)
		nf := r.Range(1, 10)
		for k := 0; k < nf; k++ {
			f := scen.Fault{W: -1, Attempt: r.Intn(tk*4 + 4), Kind: scen.Pick(r, []string{"err", "err", "partial", "short", "stall"}), N: r.Intn(40)}
			if r.Chance(1, 3) {
				f.W = r.Range(1, 6)
				f.Attempt = r.Intn(tk + 2)
			}
			sc.Faults = append(sc.Faults, f)
		}
		if r.Chance(1, 5) {
			// most members of the destination lists fail permanently for a while
			for wid := 1; wid <= 30; wid++ {
				if r.Chance(4, 5) {
					for a := 0; a < 6; a++ {
						sc.Faults = append(sc.Faults, scen.Fault{W: wid, Attempt: a, Kind: "err"})
					}
				}
			}
		}
		if r.Chance(1, 4) {
			// a burst: the record's write and the diagnostic's own write fail back to back
			a := r.Intn(tk*2 + 2)
			for q := 0; q < 4; q++ {
				sc.Faults = append(sc.Faults, scen.Fault{W: -1, Attempt: a + q, Kind: "err"})
			}
		}
	}
	// fault-free tail: one call per class, after every fault position has passed
	maxA := 0
	for _, f := range sc.Faults {
		if f.Attempt > maxA {
			maxA = f.Attempt
		}
	}
	_ = maxA
	for _, sev := range []int{model.Error, model.Warn, model.Info, model.Always} {
		tk++
		sc.Tail = append(sc.Tail, scen.Op{Op: "log", L: 1, Entry: "LogAttrs", Lvl: sev, Msg: "t" + tok(tk), Tok: tok(tk), Kind: "tail"})
	}
	return sc
}

func (p *C13) WellFormed(sc *scen.Scenario) bool {
	chk := func(ops []scen.Op) bool {
		for i := range ops {
			if ops[i].Op == "log" && (ops[i].Tok == "" || !strings.Contains(ops[i].Msg, ops[i].Tok)) {
				return false
			}
		}
		return true
	}
	if !chk(sc.Setup) || !chk(sc.Tail) {
		return false
	}
	for _, t := range sc.Tasks {
		if !chk(t.Ops) {
			return false
		}
	}
	if len(sc.Setup) == 0 || sc.Setup[0].Op != "new_root" {
		return false
	}
	hasW, hasE, hasL := false, false, false
	for _, o := range sc.Setup[0].Opts {
		switch o.Kind {
		case "writer":
			hasW = true
		case "errwriter":
			hasE = true
		case "level":
			hasL = true
		}
	}
	return hasW && hasE && hasL // the package defaults (fd 1/2) are not observed in this engine
}

func (p *C13) Check(sc *scen.Scenario, run *orch.Run, env *orch.Env) []orch.Violation {
	var out []orch.Violation
	add := func(rule, witness, format string, a ...any) {
		out = append(out, orch.Violation{Rule: rule, Witness: witness, Detail: fmt.Sprintf(format, a...)})
	}
	if run.Result != nil && run.Result.Budget != "" {
		return []orch.Violation{{Rule: "C13.cascade", Witness: "budget", Detail: "step budget exceeded: " + run.Result.Budget}}
	}
	if worldDied(run) {
		return []orch.Violation{{Rule: "C13.terminated", Witness: "world", Detail: fmt.Sprintf("world ended early exit=%d timeout=%v stderr=%.300q", run.ExitCode, run.TimedOut, lastLines(run.Stderr, 300))}}
	}
	ops := indexOps(run)
	reg := model.NewRegistry()
	ws := model.WritersFromHistory(sc.Setup, -1)[1]
	if ws == nil {
		return nil
	}
	level := -1
	for _, o := range sc.Setup[0].Opts {
		if o.Kind == "level" {
			level = o.Lvl
		}
	}
	warnSel, _ := ws.Select(reg, model.Warn)
	warnAdmitted := reg.Admitted(level, model.Warn, false) == model.Admit
	// faults that are still pending when the tail starts would make the tail a faulty phase: find the first fault-free tail op
	// With several caller tasks the writes are attributed to calls by content, not by the call during which they
	// were observed: the statement does not say which goroutine hands a record (or the diagnostic for it) to the
	// destinations, only how many of them there may be per failing call.
	attributed := map[string][]scen.Event{}
	if len(sc.Tasks) > 1 {
		attributed = c13Attribute(sc, ops, warnSel)
	}
	check := func(ph string, task, idx int, op *scen.Op) {
		o := ops[opKey(ph, task, idx+1)]
		if o == nil || op.Op != "log" {
			return
		}
		if ws, ok := attributed[opKey(ph, task, idx+1)]; ok {
			c := *o
			c.Writes = ws
			o = &c
		}
		mode := "seq"
		if len(sc.Tasks) > 1 {
			mode = "conc"
		}
		if o.Panic != nil {
			add("C13.panic", "entry="+op.Entry, "%s at %s panicked instead of returning normally: %s", op.Entry, model.LevelName(op.Lvl), o.Panic.S)
			return
		}
		adm := reg.Admitted(level, op.Lvl, false)
		sel, _ := ws.Select(reg, op.Lvl)
		var rec, diag []scen.Event
		for _, e := range o.Writes {
			if containsTok(e.P, op.Tok) {
				rec = append(rec, e)
			} else {
				diag = append(diag, e)
			}
		}
		if adm == model.Deny {
			if len(o.Writes) > 0 {
				add("C13.unadmitted", mode, "%s at %s is not admitted (logger at %s) but %d writes happened", op.Entry, model.LevelName(op.Lvl), model.LevelName(level), len(o.Writes))
			}
			return
		}
		if adm != model.Admit {
			if len(o.Writes) == 0 {
				return
			}
		}
		failed, mayFail := false, false
		faulty := false
		perW := map[int][]scen.Event{}
		for _, e := range rec {
			perW[e.W] = append(perW[e.W], e)
			if e.Err != "" {
				failed = true
			}
			if e.F == "short" {
				// n < len(p) with a nil error: the destination broke the io.Writer contract; logg may
				// or may not count that as a failed Write (the statement does not say), so a
				// diagnostic is allowed here, never required
				mayFail = true
			}
			if e.F != "" {
				faulty = true
			}
		}
		diagFault := false
		for _, e := range diag {
			if e.F != "" {
				diagFault = true
			}
		}
		class := "clean"
		if faulty || diagFault {
			class = "faulted"
		}
		if op.Kind == "tail" {
			class = "tail-" + class
		}
		// every selected destination is attempted exactly once; the non-failing ones hold the whole record
		want := map[int]int{}
		for _, w := range sel {
			want[w]++
		}
		ids := map[int]bool{}
		for w := range want {
			ids[w] = true
		}
		for w := range perW {
			ids[w] = true
		}
		for _, w := range sortedKeysInt(ids) {
			evs := perW[w]
			// a destination registered k > 1 times in the selected list: the statement does not say whether a
			// list may skip the later registrations of a member that has just been written (or has just failed),
			// so 1..k attempts are accepted for it; every other destination is still attempted exactly once
			if want[w] > 1 && len(evs) >= 1 && len(evs) <= want[w] {
				// accepted
			} else if len(evs) != want[w] {
				add("C13.delivery", fmt.Sprintf("%s %s got=%d want=%d", mode, class, min(len(evs), 3), want[w]),
					"%s %s (%s): destination %d saw the record %d time(s), expected %d; selected %v, record attempts %s, diagnostics %d",
					op.Entry, op.Tok, model.LevelName(op.Lvl), w, len(evs), want[w], sel, attemptsString(rec), len(diag))
				continue
			}
			for _, e := range evs {
				if e.Err == "" && e.F != "short" && e.F != "partial" {
					if len(e.P) == 0 || e.P[len(e.P)-1] != '\n' {
						add("C13.whole", mode+" "+class, "destination %d received an incomplete record: %.120q", w, e.P)
					}
				}
			}
		}
		// the reaction: at most one diagnostic, only at the warning destinations, never for a warning, never without a failure
		perD := map[int]int{}
		for _, e := range diag {
			perD[e.W]++
		}
		switch {
		case len(diag) > 0 && !failed && !mayFail:
			add("C13.diagnostic", mode+" without-failure", "%s %s: no write failed but %d further writes happened: %.160q", op.Entry, op.Tok, len(diag), diag[0].P)
		case len(diag) > 0 && op.Lvl == model.Warn:
			add("C13.diagnostic", mode+" on-warning", "the failing record was itself a warning, yet %d further writes happened", len(diag))
		case len(diag) > 0 && !warnAdmitted:
			add("C13.diagnostic", mode+" not-admitted", "the logger (level %s) does not admit warnings, yet a diagnostic was written", model.LevelName(level))
		}
		for _, w := range sortedKeysInt(keysOfInt(perD)) {
			if !model.Contains(warnSel, w) {
				add("C13.diagnostic", mode+" wrong-destination", "a diagnostic went to destination %d which is not a warning destination %v", w, warnSel)
			} else if perD[w] > max(1, countInt(warnSel, w)) {
				add("C13.cascade", mode+" repeated", "%s %s: destination %d received %d diagnostics for one failing call (at most one is allowed): attempts %s", op.Entry, op.Tok, w, perD[w], attemptsString(diag))
			}
		}
		if total := len(o.Writes); total > len(sel)+len(warnSel) {
			add("C13.cascade", mode+" budget", "%s %s caused %d write attempts; at most %d (record) + %d (one warning) are allowed", op.Entry, op.Tok, total, len(sel), len(warnSel))
		}
		for _, e := range diag {
			if lv, ok := levelField(e.P); ok && lv != "warning" {
				add("C13.diagnostic", mode+" severity", "the diagnostic has level %q, expected a warning", lv)
			}
		}
	}
	for i := range sc.Setup {
		check("setup", 0, i, &sc.Setup[i])
	}
	for _, t := range sc.Tasks {
		for i := range t.Ops {
			check("task", t.ID, i, &t.Ops[i])
		}
	}
	for i := range sc.Tail {
		check("tail", 0, i, &sc.Tail[i])
	}
	return dedupe(out)
}

// c13Attribute distributes the writes observed while the caller tasks ran: a payload that carries the token of
// exactly one call is an attempt to deliver that call's record; a payload without a call token is a diagnostic and
// goes to a call that had a failed attempt and has not got one for that destination yet (the call during which it
// was seen first), or stays where it was seen.
func c13Attribute(sc *scen.Scenario, ops map[string]*opObs, warnSel []int) map[string][]scen.Event {
	out := map[string][]scen.Event{}
	owner := map[string]string{}
	var order []string
	lvlOf := map[string]int{}
	for _, t := range sc.Tasks {
		for i := range t.Ops {
			k := opKey("task", t.ID, i+1)
			out[k] = nil
			if t.Ops[i].Op == "log" && t.Ops[i].Tok != "" {
				owner[t.Ops[i].Tok] = k
				order = append(order, k)
				lvlOf[k] = t.Ops[i].Lvl
			}
		}
	}
	type loose struct {
		e    scen.Event
		from string
	}
	var pool []loose
	for _, t := range sc.Tasks {
		for i := range t.Ops {
			k := opKey("task", t.ID, i+1)
			o := ops[k]
			if o == nil {
				continue
			}
			for _, e := range o.Writes {
				found := map[string]bool{}
				for _, m := range tokRe.FindAllString(string(e.P), -1) {
					found[m] = true
				}
				to := k
				if len(found) == 1 {
					for m := range found {
						if ok, has := owner[m]; has {
							to = ok
						}
					}
				}
				if len(found) == 0 {
					pool = append(pool, loose{e, k})
					continue
				}
				out[to] = append(out[to], e)
			}
		}
	}
	need := map[string]map[int]int{}
	for _, k := range order {
		if lvlOf[k] == model.Warn {
			continue
		}
		for _, e := range out[k] {
			if e.Err != "" || e.F == "short" {
				need[k] = map[int]int{}
				for _, w := range warnSel {
					need[k][w]++
				}
				break
			}
		}
	}
	for _, l := range pool {
		to := l.from
		if need[to][l.e.W] == 0 {
			for _, k := range order {
				if need[k][l.e.W] > 0 {
					to = k
					break
				}
			}
		}
		if need[to][l.e.W] > 0 {
			need[to][l.e.W]--
		}
		out[to] = append(out[to], l.e)
	}
	return out
}

func keysOfInt(m map[int]int) map[int]bool {
	o := map[int]bool{}
	for k := range m {
		o[k] = true
	}
	return o
}

func attemptsString(es []scen.Event) string {
	var sb strings.Builder
	for _, e := range es {
		st := "ok"
		if e.Err != "" {
			st = "fail"
		} else if e.F != "" {
			st = e.F
		}
		fmt.Fprintf(&sb, "w%d#%d:%s ", e.W, e.A, st)
	}
	return strings.TrimSpace(sb.String())
}

func (p *C13) Classify(sc *scen.Scenario, run *orch.Run) (string, bool) {
	var sb strings.Builder
	for _, o := range sc.Setup[0].Opts {
		fmt.Fprintf(&sb, "%s:%d:%d;", o.Kind, o.W, o.Lvl)
	}
	for _, f := range sc.Faults {
		fmt.Fprintf(&sb, "f%d:%d:%s;", f.W, f.Attempt, f.Kind)
	}
	for i := range sc.Setup {
		if sc.Setup[i].Op == "log" {
			fmt.Fprintf(&sb, "%s:%d;", sc.Setup[i].Entry, sc.Setup[i].Lvl)
		}
	}
	fmt.Fprintf(&sb, "tasks=%d", len(sc.Tasks))
	// non-trivial: a fault fired inside a call with >= 2 selected destinations, or on a diagnostic
	nt := false
	byOp := map[string][]scen.Event{}
	for _, e := range run.Events {
		if e.K == "write" {
			k := opKey(e.Ph, e.T, e.Op)
			byOp[k] = append(byOp[k], e)
		}
	}
	for _, es := range byOp {
		fired := false
		for _, e := range es {
			if e.F != "" {
				fired = true
			}
		}
		if fired && len(es) >= 2 {
			nt = true
		}
	}
	return fmt.Sprintf("%x", scen.HashString(sb.String())), nt
}

func countInt(l []int, w int) int {
	n := 0
	for _, x := range l {
		if x == w {
			n++
		}
	}
	return n
}
