package props

import (
	"fmt"
	"regexp"
	"sort"
	"strings"

	"verif/internal/model"
	"verif/internal/orch"
	"verif/internal/scen"
)

// C08 — concurrent logging is race-free and never tears or loses a record.
type C08 struct{}

func (*C08) ID() string     { return "C08" }
func (*C08) Level() string  { return "exploration" }
func (*C08) Engine() string { return "CONC+CONC-race" }
func (*C08) Rule() string {
	return "seeded schedules: G in 1..64 caller tasks x N in 1..50 calls over 1-8 loggers (parents and children, mixed formats) with per-call attributes, logger attributes, Group values shared between tasks and installed on loggers, multi-line messages and error values; attribute, Stringer and error objects are harness types whose methods are yield points, so a task is preempted inside the sort, the dedupe and the serializer of a record; destinations stall; exactly one task runs at a time and the sched tape decides who; oracles: every payload is the complete record of exactly one call (unique token, unique values), per-destination conservation, and - in the race-transparent world - zero reports of the Go race detector; distinct = hash of the consumed schedule tape; non-trivial = >= 2 tasks and >= 1 context switch strictly inside a log call"
}

func (*C08) Plan(tier string) orch.Plan {
	p := orch.Plan{Episodes: 3000, Batch: 1, NeedRace: true, NeedFine: true, RaceEpisodes: 96, RaceBatch: 8,
		Assumptions: []string{
			"preemption only at user-callback boundaries (attribute Key/Value, String, Error, context Value, Write, SetLevel); the race detector's verdict does not depend on where the switch happened",
			"race world: the real sync.Pool runs (its own race annotations are what orders Put/Get), so which pooled object a task receives is not on the tape there",
		}}
	if tier == "thorough" {
		p.Episodes, p.RaceEpisodes, p.RaceBatch = 200000, 6000, 16
	}
	return p
}

type c08Gen struct {
	r   *scen.Rng
	val int64
}

func (g *c08Gen) nv() int64 { g.val++; return 9000000 + g.val }

func (g *c08Gen) key() string { return fmt.Sprintf("k%d", g.nv()%1000000) }

func (g *c08Gen) attr(yield bool) scen.Arg {
	return scen.Arg{K: "attr", Key: g.key(), Y: yield, Items: []scen.Arg{{K: "i", I: g.nv()}}}
}

func (g *c08Gen) group(ref int) scen.Arg {
	a := scen.Arg{K: "ggroup", Key: "g" + g.key(), Ref: ref}
	for n := g.r.Range(1, 5); n > 0; n-- {
		a.Items = append(a.Items, g.attr(g.r.Chance(3, 4)))
	}
	return a
}

// c08Warm is a record issued in the setup phase (task 0); tokens #T100001# upwards.
func c08Warm(r *scen.Rng, g *c08Gen, l, k int, sharedRefs []scen.Arg) scen.Op {
	t := tok(100000 + k)
	if r.Chance(1, 4) {
		return scen.Op{Op: "log", L: l, Entry: scen.Pick(r, []string{"Print", "Println"}), Lvl: model.Always, Msg: scen.Pick(r, []string{"", " ", "\n"}), Tok: t, Kind: "blank"}
	}
	sev := scen.Pick(r, []int{model.Error, model.Warn, model.Info, model.Debug, model.Always, model.OK})
	op := scen.Op{Op: "log", L: l, Entry: sevEntryName[sev], Lvl: sev, Tok: t, Msg: "w" + t}
	for n := r.Intn(3); n > 0; n-- {
		op.Args = append(op.Args, g.attr(false))
	}
	if r.Chance(1, 3) {
		op.Args = append(op.Args, scen.Pick(r, sharedRefs))
	}
	return op
}

func (p *C08) Gen(seed uint64, i int, tier string) *scen.Scenario {
	race := i < 0 // the driver numbers race-world episodes -1, -2, ...
	r := scen.NewRng(scen.Mix(seed, scen.HashString("C08"), uint64(i)))
	g := &c08Gen{r: r}
	sc := &scen.Scenario{Property: "C08", Engine: "CONC", Seed: scen.Mix(seed, 108, uint64(i)) >> 12}
	sc.World.Race = race
	sc.World.Isolated = !race
	sc.World.Mode = scen.Pick(r, []string{"production", "testing"})
	if race {
		sc.Engine = "CONC-race"
		sc.World.Mode = "production"
	}
	sc.World.Flags = []string{"LnoInterrupt"}
	sc.World.NoFlags = []string{"Lcaller"}
	if scen.Mix(seed, 1008, uint64(i))%4 == 0 {
		// records name their call site: every entry point is called from one statement of the world's interpreter,
		// so all records of one entry point must name the same line
		sc.World.NoFlags = nil
	}
	if r.Chance(1, 3) {
		sc.World.Flags = append(sc.World.Flags, "LattrsR")
	}
	sc.World.Clock = scen.Clock{TickNs: 1, MinStep: 40, MaxStep: 400}
	sc.Sched = scen.SchedCfg{StayPermille: r.Range(400, 970)}

	// shared objects
	nShared := r.Range(1, 4)
	var share scen.Op
	share.Op = "share"
	var sharedRefs []scen.Arg
	for k := 1; k <= nShared; k++ {
		a := g.group(k)
		share.Args = append(share.Args, a)
		sharedRefs = append(sharedRefs, a)
	}
	sc.Setup = append(sc.Setup, share)

	nLoggers := r.Range(1, 8)
	nW := r.Range(1, 4)
	wk := 0
	nested := r.Chance(1, 4)
	nrl := 0
	if nested {
		// some attribute values log a record of their own from inside String() (on a logger and a destination of their own)
		sc.Setup = append(sc.Setup, scen.Op{Op: "new_root", R: c02NestedLogger, Name: "nested", Named: true, Opts: []scen.Op{{Kind: "writer", W: c02NestedWriter}, {Kind: "errwriter", W: c02NestedWriter}, {Kind: "level", Lvl: model.Always},
			{Kind: scen.Pick(r, []string{"json", "color"}), B: []bool{r.Bool()}}}})
	}
	ctxEp := scen.Mix(seed, 1009, uint64(i))%3 == 0
	ctxKeys := map[int][]scen.CtxKey{}
	for id := 1; id <= nLoggers; id++ {
		var op scen.Op
		if id == 1 || r.Chance(1, 3) {
			op = scen.Op{Op: "new_root", R: id, Name: fmt.Sprintf("l%d", id), Named: true}
		} else {
			op = scen.Op{Op: "new_child", L: r.Range(1, id-1), R: id, Name: fmt.Sprintf("l%d", id), Named: true}
		}
		op.Opts = append(op.Opts, scen.Op{Kind: "writer", W: r.Range(1, nW)}, scen.Op{Kind: "errwriter", W: r.Range(1, nW)}, scen.Op{Kind: "level", Lvl: model.Always})
		switch r.Intn(3) {
		case 0:
			op.Opts = append(op.Opts, scen.Op{Kind: "json", B: []bool{true}})
		case 1:
			op.Opts = append(op.Opts, scen.Op{Kind: "color", B: []bool{false}})
		default:
			op.Opts = append(op.Opts, scen.Op{Kind: "color", B: []bool{true}})
		}
		if r.Chance(2, 3) {
			o := scen.Op{Kind: "attrs"}
			na := r.Range(1, 3)
			if r.Chance(1, 15) {
				na = scen.Pick(r, []int{120, 135, 300}) // more own attributes than the pooled per-call slice holds at first
			}
			for n := na; n > 0; n-- {
				o.Args = append(o.Args, g.attr(n <= 3 && r.Bool()))
			}
			if r.Chance(1, 2) {
				o.Args = append(o.Args, scen.Pick(r, sharedRefs)) // a logger-level shared group
			}
			op.Opts = append(op.Opts, o)
		}
		sc.Setup = append(sc.Setup, op)
		if ctxEp {
			// the logger prints the values its calls' contexts hold for these keys (unique per call: a value that turns
			// up in another call's record is seen)
			var ks []scen.CtxKey
			for n := 1 + int(scen.Mix(seed, 1010, uint64(i), uint64(id))%2); n > 0; n-- {
				ks = append(ks, scen.CtxKey{Kind: []string{"s", "st"}[(id+n)%2], Name: "c" + g.key()})
			}
			ctxKeys[id] = ks
			sc.Setup = append(sc.Setup, scen.Op{Op: "set", L: id, Kind: "ctxkeys", Keys: ks})
		}
		// records issued before the concurrent phase, while the tree is still growing: a logger that
		// has already printed gets children afterwards (anything a logger keeps from its first record
		// is then there when its descendants are made)
		if r.Chance(1, 3) {
			wk++
			sc.Setup = append(sc.Setup, c08Warm(r, g, r.Range(1, id), wk, sharedRefs))
		}
	}
	for k := r.Intn(3); k > 0; k-- {
		wk++
		sc.Setup = append(sc.Setup, c08Warm(r, g, r.Range(1, nLoggers), wk, sharedRefs))
	}
	G := scen.Pick(r, []int{1, 2, 2, 3, 4, 4, 8, 16, 64})
	N := r.Range(1, 50)
	if G >= 16 {
		N = r.Range(1, 10)
	}
	if race {
		G = scen.Pick(r, []int{2, 3, 4, 8})
		N = r.Range(2, 20)
	}
	// scheduling style (swarm): stay-probability at callback boundaries; PCT-like "d preemptions at
	// random depths"; and the same in the world built with rule R4, where every function entry of
	// package slog is a yield point, so a preemption can fall between any two calls inside logg
	if !race {
		switch i % 4 {
		case 1:
			sc.World.Fine = true
			sc.Sched.PCTDepth = r.Range(1, 4)
			sc.Sched.Horizon = scen.Pick(r, []int{60, 300, 1500, 6000})
			G = scen.Pick(r, []int{2, 2, 3, 4})
			N = r.Range(1, 6)
		case 2:
			sc.Sched.PCTDepth = r.Range(1, 6)
			sc.Sched.Horizon = scen.Pick(r, []int{20, 100, 500})
		case 3:
			if r.Bool() {
				sc.World.Fine = true
				sc.Sched.StayPermille = r.Range(950, 998)
				G = scen.Pick(r, []int{2, 3})
				N = r.Range(1, 4)
			}
		}
	}
	tk := 0
	sevs := []int{model.Error, model.Warn, model.Info, model.Debug, model.Always, model.OK}
	for t := 1; t <= G; t++ {
		task := scen.Task{ID: t}
		for k := 0; k < N; k++ {
			tk++
			sev := scen.Pick(r, sevs)
			name := sevEntryName[sev]
			if r.Chance(1, 30) {
				// a blank Print/Println in the middle of the traffic: its record is the single newline
				task.Ops = append(task.Ops, scen.Op{Op: "log", L: r.Range(1, nLoggers), Entry: scen.Pick(r, []string{"Print", "Println"}), Lvl: model.Always,
					Msg: scen.Pick(r, []string{"", " ", "\n", " \t\n"}), Tok: tok(tk), Kind: "blank"})
				continue
			}
			op := scen.Op{Op: "log", L: r.Range(1, nLoggers), Entry: scen.Pick(r, []string{name, name + "Context", "LogAttrs"}), Lvl: sev, Tok: tok(tk)}
			op.Msg = "m" + op.Tok
			if r.Chance(1, 6) {
				// every line names the call: a continuation line that turns up in another call's payload shows
				op.Msg = "first " + op.Tok + "\nsecond " + op.Tok + scen.Pick(r, []string{"\nthird " + op.Tok, "\nthird " + op.Tok + "\n", ""})
			}
			for n := r.Intn(5); n > 0; n-- {
				switch c := r.Intn(10); {
				case c < 4:
					op.Args = append(op.Args, scen.Arg{K: "key", S: g.key()}, scen.Arg{K: "i", I: g.nv()})
				case c < 8:
					op.Args = append(op.Args, g.attr(true))
				case nested && c == 8:
					nrl++
					op.Args = append(op.Args, scen.Arg{K: "attr", Key: "n" + g.key(), Items: []scen.Arg{{K: "relog", I: c02NestedLogger, S: tok(50000 + nrl)}}})
				default:
					op.Args = append(op.Args, scen.Arg{K: "attr", Key: "e" + g.key(), Items: []scen.Arg{{K: "err", S: fmt.Sprintf("err-%d", r.Intn(1000)), Y: r.Bool()}}})
				}
			}
			if r.Chance(1, 2) {
				op.Args = append(op.Args, scen.Pick(r, sharedRefs))
			}
			if r.Chance(1, 25) {
				// a wide record (the property allows any number of attributes; 57+ pairs outgrow the pooled slice's initial size hint)
				wide := r.Range(57, 90)
				if r.Chance(1, 6) {
					wide = scen.Pick(r, []int{520, 1100})
				}
				for n := wide; n > 0; n-- {
					op.Args = append(op.Args, scen.Arg{K: "key", S: g.key()}, scen.Arg{K: "i", I: g.nv()})
				}
			}
			if op.Entry != name && r.Chance(1, 5) {
				op.Ctx = &scen.CtxSpec{}
			}
			if op.Entry != name && len(ctxKeys[op.L]) > 0 {
				op.Ctx = &scen.CtxSpec{}
				for q, ck := range ctxKeys[op.L] {
					if (tk+q)%4 != 0 {
						op.Ctx.Vals = append(op.Ctx.Vals, scen.CtxVal{Key: ck, V: scen.Arg{K: "i", I: g.nv(), Y: true}})
					}
				}
			}
			task.Ops = append(task.Ops, op)
		}
		sc.Tasks = append(sc.Tasks, task)
	}
	// slow devices
	for k := r.Intn(6); k > 0; k-- {
		sc.Faults = append(sc.Faults, scen.Fault{W: r.Range(1, nW), Attempt: r.Intn(G*N + 1), Kind: "stall", N: r.Range(1, 4)})
	}
	return sc
}

// SameViolation: two race reports are the same finding when they share a racing function.
func (p *C08) SameViolation(rule, w1, w2 string) bool {
	if rule != "C08.datarace" {
		return false
	}
	a := strings.Split(strings.TrimPrefix(w1, "at="), "<")
	b := strings.Split(strings.TrimPrefix(w2, "at="), "<")
	for _, x := range a {
		for _, y := range b {
			if x != "" && x == y {
				return true
			}
		}
	}
	return false
}

var tokRe = regexp.MustCompile(`#T[0-9]+#`)

func (p *C08) WellFormed(sc *scen.Scenario) bool {
	seen := map[int64]bool{}
	toks := map[string]bool{}
	var okArgs func(as []scen.Arg) bool
	okArgs = func(as []scen.Arg) bool {
		for i := 0; i < len(as); i++ {
			a := &as[i]
			switch a.K {
			case "key":
				if !safeKeyRe.MatchString(a.S) || i+1 >= len(as) || as[i+1].K != "i" || !uniqueVal(as[i+1].I, seen) {
					return false
				}
				i++
			case "attr":
				if !safeKeyRe.MatchString(a.Key) || len(a.Items) != 1 {
					return false
				}
				if a.Items[0].K == "i" {
					if !uniqueVal(a.Items[0].I, seen) {
						return false
					}
				} else if a.Items[0].K == "relog" {
					if a.Items[0].I != c02NestedLogger || !tokRe.MatchString(a.Items[0].S) || len(a.Items[0].S) < 8 {
						return false
					}
				} else if a.Items[0].K != "err" {
					return false
				}
			case "ggroup":
				if !safeKeyRe.MatchString(a.Key) {
					return false
				}
				if a.Ref > 0 && len(a.Items) == 0 {
					return false
				}
			default:
				return false
			}
		}
		return true
	}
	refs := map[int]string{}
	for i := range sc.Setup {
		op := &sc.Setup[i]
		if op.Op == "share" {
			for _, a := range op.Args {
				if a.Ref <= 0 || a.K != "ggroup" {
					return false
				}
				b := a
				if !okArgs(b.Items) || !safeKeyRe.MatchString(a.Key) {
					return false
				}
				refs[a.Ref] = a.Key
			}
		}
	}
	var okRefs func(as []scen.Arg) bool
	okRefs = func(as []scen.Arg) bool {
		var plain []scen.Arg
		for _, a := range as {
			if a.Ref > 0 {
				if k, ok := refs[a.Ref]; !ok || k != a.Key {
					return false
				}
				continue
			}
			plain = append(plain, a)
		}
		return okArgs(plain)
	}
	for i := range sc.Setup {
		op := &sc.Setup[i]
		for _, o := range op.Opts {
			if !okRefs(o.Args) {
				return false
			}
		}
	}
	okLog := func(op *scen.Op) bool {
		if op.Op != "log" || op.Tok == "" || toks[op.Tok] || !okRefs(op.Args) {
			return false
		}
		toks[op.Tok] = true
		if op.Kind == "blank" {
			return strings.Trim(op.Msg, "\n\r \t") == "" && len(op.Args) == 0 && (op.Entry == "Print" || op.Entry == "Println") && op.Lvl == model.Always
		}
		return strings.Contains(op.Msg, op.Tok)
	}
	for i := range sc.Setup {
		if op := &sc.Setup[i]; op.Op == "log" && !okLog(op) {
			return false
		}
	}
	for _, t := range sc.Tasks {
		for i := range t.Ops {
			if !okLog(&t.Ops[i]) {
				return false
			}
		}
	}
	return len(sc.Tasks) > 0
}

// c08Logger is what the oracle needs to know about a logger.
type c08Logger struct {
	ctxKeys []scen.CtxKey
	parent  int
	attrs   []mAttr
	format  int
	ws      *model.Writers
}

func (p *C08) Check(sc *scen.Scenario, run *orch.Run, env *orch.Env) []orch.Violation {
	var out []orch.Violation
	add := func(rule, witness, format string, a ...any) {
		out = append(out, orch.Violation{Rule: rule, Witness: witness, Detail: fmt.Sprintf(format, a...)})
	}
	if sc.World.Race {
		harness := 0
		for _, rep := range orch.ParseRaces(run.Stderr) {
			if rep.Harness {
				harness++
				continue
			}
			add("C08.datarace", "at="+strings.Join(rep.LoggFuncs, "<"), "the Go race detector reports a data race between caller tasks (schedule fixed by the tape):\n%.1800s", rep.Text)
		}
		if harness > 0 {
			add("HARNESS.race", "harness", "%d race reports lie entirely in harness code (simulator problem, not a finding)", harness)
		}
		if worldDied(run) && !strings.Contains(string(run.Stderr), "DATA RACE") {
			add("C08.terminated", "race-world", "race world ended early exit=%d stderr=%.300q", run.ExitCode, lastLines(run.Stderr, 300))
		}
		return dedupe(out)
	}
	if run.Result != nil && run.Result.Budget != "" {
		return nil // reported as inconclusive by the driver
	}
	if worldDied(run) {
		return []orch.Violation{{Rule: "C08.terminated", Witness: "world", Detail: fmt.Sprintf("world ended early exit=%d timeout=%v stderr=%.400q", run.ExitCode, run.TimedOut, lastLines(run.Stderr, 400))}}
	}
	// model of the loggers
	shared := map[int]scen.Arg{}
	ls := map[int]*c08Logger{}
	inherit := false
	for _, f := range sc.World.Flags {
		if f == "LattrsR" {
			inherit = true
		}
	}
	resolve := func(as []scen.Arg) []scen.Arg {
		outA := make([]scen.Arg, 0, len(as))
		for _, a := range as {
			if a.Ref > 0 {
				if s, ok := shared[a.Ref]; ok {
					a = s
				}
			}
			outA = append(outA, a)
		}
		return outA
	}
	wsAll := model.WritersFromHistory(sc.Setup, -1)
	for i := range sc.Setup {
		op := &sc.Setup[i]
		switch op.Op {
		case "share":
			for _, a := range op.Args {
				shared[a.Ref] = a
			}
		case "set":
			if l := ls[op.L]; l != nil && op.Kind == "ctxkeys" {
				l.ctxKeys = append(l.ctxKeys, op.Keys...)
			}
		case "new_root", "new_child":
			l := &c08Logger{parent: -1, format: fmtColor, ws: wsAll[op.R]}
			if op.Op == "new_child" {
				if pl := ls[op.L]; pl != nil {
					l.parent = op.L
					l.format = pl.format
				}
			}
			for _, o := range op.Opts {
				switch o.Kind {
				case "json", "color":
					l.format = fmtApply(l.format, o.Kind, o.B)
				case "attrs":
					l.attrs = append(l.attrs, c08Flatten(resolve(o.Args))...)
				}
			}
			ls[op.R] = l
		}
	}
	type call struct {
		task, idx int
		op        *scen.Op
		ph        string
	}
	calls := map[string]call{}
	for i := range sc.Setup {
		if op := &sc.Setup[i]; op.Op == "log" {
			calls[op.Tok] = call{0, i, op, "setup"}
		}
	}
	for _, t := range sc.Tasks {
		for i := range t.Ops {
			calls[t.Ops[i].Tok] = call{t.ID, i, &t.Ops[i], "task"}
		}
	}
	nestedToks := relogTokens(sc)
	reg := model.NewRegistry()
	siteOf, siteTok := map[string]string{}, map[string]string{} // calling statement -> line named by its records, and the first such record
	delivered := map[int]map[string]int{}                       // writer -> token -> count
	ops := indexOps(run)
	for _, t := range sc.Tasks {
		for i := range t.Ops {
			if o := ops[opKey("task", t.ID, i+1)]; o != nil && o.Panic != nil {
				add("C08.panic", "entry="+t.Ops[i].Entry, "task %d call %s panicked: %s", t.ID, t.Ops[i].Tok, o.Panic.S)
			}
		}
	}
	for i := range run.Events {
		e := &run.Events[i]
		if e.K != "write" {
			continue
		}
		text := stripSGR(e.P)
		if string(e.P) == "\n" {
			// the record of a blank Print/Println. It names no call, and the statement does not say which goroutine
			// hands a record to the destination (a logger may let the goroutine that is writing anyway take along
			// what others finished meanwhile), so blank records are counted per destination, not per call window
			if delivered[e.W] == nil {
				delivered[e.W] = map[string]int{}
			}
			delivered[e.W][c08Blank]++
			continue
		}
		found := map[string]bool{}
		for _, m := range tokRe.FindAllString(text, -1) {
			found[m] = true
		}
		if len(found) != 1 {
			add("C08.torn", fmt.Sprintf("tokens=%d", min(len(found), 3)), "a Write payload on destination %d carries %d call tokens (must be the record of exactly one call): %.300q", e.W, len(found), text)
			continue
		}
		var tk string
		for k := range found {
			tk = k
		}
		if nestedToks[tk] {
			// the record a value logged from inside String(): whole, alone, at the nested logger's destination
			// (how often the value is formatted, hence how many such records there are, is not prescribed)
			if e.W != c02NestedWriter || len(e.P) == 0 || e.P[len(e.P)-1] != '\n' {
				add("C08.torn", "nested", "the record logged from inside a value's String method arrived on destination %d as %.200q", e.W, text)
			}
			continue
		}
		c, ok := calls[tk]
		if !ok {
			add("C08.torn", "unknown-token", "payload carries a token no call issued: %.200q", text)
			continue
		}
		if c.op.Kind == "blank" {
			add("C08.torn", "blank-with-text", "the blank call %s produced a payload with text: %.200q", tk, text)
			continue
		}
		// (a record may be handed to the destination by another goroutine than the one that issued the call: what
		// is claimed is one whole, uncorrupted payload per admitted call and equal multisets, decided below)
		if delivered[e.W] == nil {
			delivered[e.W] = map[string]int{}
		}
		delivered[e.W][tk]++
		if have, want := strings.Count(text, tk), strings.Count(c.op.Msg, tk); have != want {
			add("C08.corrupt", "message-lines", "record of call %s: the message names the call on %d line(s), the payload %d time(s): %.300q", tk, want, have, text)
		}
		if len(e.P) == 0 || e.P[len(e.P)-1] != '\n' {
			add("C08.torn", "no-newline", "payload of %s does not end with a newline: %.200q", tk, text)
		}
		l := ls[c.op.L]
		if l == nil {
			continue
		}
		// expected attribute pairs of exactly this call: the values its own context holds for the logger's keys, ...
		var list []mAttr
		if c.op.Ctx != nil && !c.op.Ctx.Nil {
			for _, ck := range l.ctxKeys {
				for q := len(c.op.Ctx.Vals) - 1; q >= 0; q-- {
					if cv := c.op.Ctx.Vals[q]; cv.Key == ck {
						list = append(list, mAttr{Key: ck.Name, Val: cv.V.I})
						break
					}
				}
			}
		}
		if inherit {
			var chain []int
			for a := l.parent; a >= 0 && ls[a] != nil; a = ls[a].parent {
				chain = append([]int{a}, chain...)
			}
			for _, a := range chain {
				list = append(list, ls[a].attrs...)
			}
		}
		list = append(list, l.attrs...)
		list = append(list, c08Flatten(resolve(c.op.Args))...)
		want := expectedPairs(mergeAttrs(list), "", l.format != fmtJSON)
		got := decodePairs(e.P)
		norm := func(ps []kv) []string {
			var s []string
			for _, p := range ps {
				k := p.Key
				if l.format == fmtJSON {
					k = leafKey(k)
				}
				s = append(s, fmt.Sprintf("%s=%d", k, p.Val))
			}
			sort.Strings(s)
			return s
		}
		seq := func(ps []kv) string {
			var s []string
			for _, p := range ps {
				k := p.Key
				if l.format == fmtJSON {
					k = leafKey(k)
				}
				s = append(s, fmt.Sprintf("%s=%d", k, p.Val))
			}
			return strings.Join(s, " ")
		}
		ws, gs := norm(want), norm(got)
		if strings.Join(ws, " ") == strings.Join(gs, " ") && seq(want) != seq(got) {
			add("C08.corrupt", "attr-order", "record of call %s (task %d, logger %d, %s) has the call's attributes but not in ascending key order: expected [%s] got [%s]", tk, c.task, c.op.L, fmtNames[l.format], seq(want), seq(got))
		}
		if strings.Join(ws, " ") != strings.Join(gs, " ") {
			kind := "attrs"
			if len(gs) < len(ws) {
				kind = "attrs-lost"
			} else if len(gs) > len(ws) {
				kind = "attrs-extra"
			}
			add("C08.corrupt", kind, "record of call %s (task %d, logger %d, %s): attribute set differs from the call's own: expected [%s] got [%s]", tk, c.task, c.op.L, fmtNames[l.format], strings.Join(ws, " "), strings.Join(gs, " "))
		}
		if m := c08SiteRe.FindSubmatch(e.P); m != nil {
			// the call site is a function of the statement that issued the call
			stmt := c.op.Entry + "/" + c.op.Kind
			if old, ok := siteOf[stmt]; !ok {
				siteOf[stmt] = string(m[1])
				siteTok[stmt] = tk
			} else if old != string(m[1]) {
				add("C08.corrupt", "caller", "record of call %s (%s) names line %s of the calling file as its call site, the record of call %s issued by the same statement names line %s", tk, c.op.Entry, m[1], siteTok[stmt], old)
			}
		}
		if l.format != fmtColor {
			if lv, ok := levelField(e.P); ok && lv != worldLevelName(run, c.op.Lvl) {
				add("C08.corrupt", "level", "record of call %s carries level %q, the call was issued at %s", tk, lv, model.LevelName(c.op.Lvl))
			}
		}
	}
	// conservation: delivered multiset == admitted calls routed there
	wantD := map[int]map[string]int{}
	for tk, c := range calls {
		l := ls[c.op.L]
		if l == nil || l.ws == nil {
			continue
		}
		sel, _ := l.ws.Select(reg, c.op.Lvl)
		for _, w := range sel {
			if wantD[w] == nil {
				wantD[w] = map[string]int{}
			}
			if c.op.Kind == "blank" {
				wantD[w][c08Blank]++
			} else {
				wantD[w][tk]++
			}
		}
	}
	wids := map[int]bool{}
	for w := range wantD {
		wids[w] = true
	}
	for w := range delivered {
		wids[w] = true
	}
	for _, w := range sortedKeysInt(wids) {
		lost, dup := 0, 0
		ex := ""
		for tk, n := range wantD[w] {
			g := delivered[w][tk]
			if g < n {
				lost++
				ex = tk
			} else if g > n {
				dup++
				ex = tk
			}
		}
		for tk, g := range delivered[w] {
			if wantD[w][tk] == 0 && g > 0 {
				dup++
				ex = tk
			}
		}
		if lost > 0 {
			add("C08.lost", "records", "destination %d: %d admitted records never arrived (e.g. %s)", w, lost, ex)
		}
		if dup > 0 {
			add("C08.duplicate", "records", "destination %d: %d records arrived more often than they were issued (e.g. %s)", w, dup, ex)
		}
	}
	return dedupe(out)
}

var c08SiteRe = regexp.MustCompile(`interp\.go:(\d+)`)

// c08Blank stands for "the record of some blank Print/Println" in the delivered/expected multisets.
const c08Blank = "(bare newline)"

// c08Flatten is flattenArgs for the arg kinds of this workload (error-valued attributes carry no checked value).
func c08Flatten(as []scen.Arg) []mAttr {
	var outA []mAttr
	for i := 0; i < len(as); i++ {
		a := &as[i]
		switch a.K {
		case "key":
			if i+1 < len(as) {
				outA = append(outA, mAttr{Key: a.S, Val: as[i+1].I})
				i++
			}
		case "attr":
			if len(a.Items) == 1 && a.Items[0].K == "i" {
				outA = append(outA, mAttr{Key: a.Key, Val: a.Items[0].I})
			} else {
				outA = append(outA, mAttr{Key: a.Key, IsGroup: true}) // prints no 7-digit value
			}
		case "ggroup":
			outA = append(outA, mAttr{Key: a.Key, IsGroup: true, Items: c08Flatten(a.Items)})
		}
	}
	return outA
}

func (p *C08) Classify(sc *scen.Scenario, run *orch.Run) (string, bool) {
	if run.Result == nil {
		return "", false
	}
	h := scen.HashString(fmt.Sprint(run.Result.Tapes.Sched))
	if sc.World.Race {
		return fmt.Sprintf("race-%d-%x", sc.Seed, h), len(sc.Tasks) >= 2
	}
	return fmt.Sprintf("%x", h), len(sc.Tasks) >= 2 && run.Result.Stats["sched.switches_in_log"] > 0
}
