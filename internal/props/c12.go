package props

import (
	"bytes"
	"fmt"
	"strings"

	"verif/internal/model"
	"verif/internal/orch"
	"verif/internal/scen"
)

// C12 — Panic and Fatal: the record is written first, then the documented termination.
type C12 struct{}

func (*C12) ID() string     { return "C12" }
func (*C12) Level() string  { return "fault_enumeration" }
func (*C12) Engine() string { return "PROC+CONC" }
func (*C12) Rule() string {
	return "enumeration of the termination matrix, one world process per cell: entry point (Panic, Fatal, their Context variants, LogAttrs/Logit/Log at Panic and Fatal, the four package-level functions) x flags {none, LnoInterrupt, Linterruptalways, both} x process mode {production, testing (argv0 ends in .test plus a -test.* argument)} x logger level {admits, does not admit} x format {json, colored, logfmt}; around the cell a seeded prefix and suffix of calls of every other severity and entry point (negative cases); the error-class destination is a real file read by the parent after the process is gone, events are streamed so that nothing after the crash point is lost; crash point = process death by os.Exit or panic at the tail of the call; distinct = cell index; non-trivial = every cell; a third of the episodes reach the cell's flag set through a history (SaveFlagsAndMod and its restore function, or AddFlags/RemoveFlags pairs) during which the no-interrupt flag is set and 0-2 Panic/Fatal calls are made that must return normally; the expectation is computed from the flags folded over that history"
}

var c12Entries = []struct {
	entry string
	sev   int
}{
	{"Panic", model.Panic}, {"Fatal", model.Fatal}, {"PanicContext", model.Panic}, {"FatalContext", model.Fatal},
	{"LogAttrs", model.Panic}, {"LogAttrs", model.Fatal}, {"Logit", model.Panic}, {"Logit", model.Fatal},
	{"Log", model.Panic}, {"Log", model.Fatal},
	{"pkg.Panic", model.Panic}, {"pkg.Fatal", model.Fatal}, {"pkg.PanicContext", model.Panic}, {"pkg.FatalContext", model.Fatal},
}

var c12Flags = [][]string{{}, {"LnoInterrupt"}, {"Linterruptalways"}, {"LnoInterrupt", "Linterruptalways"}}

const c12Cells = 14 * 4 * 2 * 2 * 3

func (*C12) Plan(tier string) orch.Plan {
	seeds := 4
	if tier == "thorough" {
		seeds = 300
	}
	return orch.Plan{Episodes: c12Cells * seeds, Batch: 1, Exhaustive: true,
		Assumptions: []string{"exhaustive: true refers to the cells of the termination matrix; message, attributes and the surrounding calls are sampled per seed"}}
}

type c12Cell struct {
	entry   string
	sev     int
	flags   []string
	mode    string
	admits  bool
	format  string
	variant int
}

func c12Decode(i int) c12Cell {
	c := c12Cell{variant: i / c12Cells}
	i %= c12Cells
	e := c12Entries[i%14]
	i /= 14
	c.entry, c.sev = e.entry, e.sev
	c.flags = c12Flags[i%4]
	i /= 4
	c.mode = []string{"production", "testing"}[i%2]
	i /= 2
	c.admits = i%2 == 0
	i /= 2
	c.format = []string{"json", "color", "logfmt"}[i%3]
	return c
}

func (p *C12) Gen(seed uint64, i int, tier string) *scen.Scenario {
	c := c12Decode(i)
	r := scen.NewRng(scen.Mix(seed, scen.HashString("C12"), uint64(i)))
	sc := &scen.Scenario{Property: "C12", Engine: "PROC", Seed: scen.Mix(seed, 112, uint64(i)) >> 12}
	sc.World.Isolated = true
	sc.World.Stream = true
	sc.World.Mode = c.mode
	sc.World.Flags = c.flags
	if scen.Mix(seed, 1012, uint64(i))%3 == 0 {
		// a process is not "under go test" because of what its command line says after the program name: the go tool
		// passes -test.* flags to a test binary; none of these is one (in a testing world they follow -test.run)
		sc.World.Args = [][]string{{"serve"}, {"serve", "-bench"}, {"-benchmark-mode=off"}, {"--testing", "-v"}, {"test", "-timeout", "3s"}, {"-race"}}[scen.Mix(seed, 1013, uint64(i))%6]
	}
	sc.World.FileDir = "auto"
	sc.World.Clock = scen.Clock{TickNs: 1, MinStep: 40, MaxStep: 4000}
	sc.Note = fmt.Sprintf("cell entry=%s sev=%d flags=%v mode=%s admits=%v format=%s faulty=%v", c.entry, c.sev, c.flags, c.mode, c.admits, c.format, c.variant%3 == 1)
	l := 1
	isPkg := strings.HasPrefix(c.entry, "pkg.")
	var level int
	if c.admits {
		level = scen.Pick(r, []int{model.Error, model.Info, model.Trace, model.Always, model.Fatal})
		if r.Chance(1, 5) {
			level = c.sev // the boundary: a logger exactly at the severity admits it
		}
	} else {
		level = model.Off
		if c.sev == model.Fatal && r.Bool() {
			level = model.Panic
		}
	}
	var fopts []scen.Op
	switch c.format {
	case "json":
		fopts = append(fopts, scen.Op{Kind: "json", B: []bool{true}})
	case "logfmt":
		fopts = append(fopts, scen.Op{Kind: "color", B: []bool{false}})
	}
	// crash point x fault: in a third of the variants the error device has a permanently failing member in
	// front of the durable one; the durable one must still hold the record when the process dies
	faulty := c.variant%3 == 1
	var pre []scen.Op
	if faulty {
		for k := 0; k < 64; k++ {
			sc.Faults = append(sc.Faults, scen.Fault{W: 3, Attempt: k, Kind: scen.Pick(r, []string{"err", "err", "partial"}), N: 5})
		}
		pre = []scen.Op{{Kind: "errwriter", W: 3, WK: "plain"}, {Kind: "add_errwriter", W: 1, WK: "file"}}
	} else if scen.Mix(seed, 1014, uint64(i))%3 == 0 {
		// destinations that can be synced, two of them reporting an I/O error when they are: whatever a library does
		// before it terminates (it may flush, nothing says it must), the record is written and the process ends as stated
		pre = []scen.Op{{Kind: "errwriter", W: 1, WK: "filesync"}, {Kind: "add_errwriter", W: 5, WK: "filesyncfail"}, {Kind: "add_errwriter", W: 6, WK: "filesyncfail"}}
	} else {
		pre = []scen.Op{{Kind: "errwriter", W: 1, WK: "file"}}
	}
	if isPkg {
		l = 0
		for _, o := range pre {
			o.Op, o.L = "set", 0
			sc.Setup = append(sc.Setup, o)
		}
		sc.Setup = append(sc.Setup, scen.Op{Op: "set", L: 0, Kind: "writer", W: 2, WK: "plain"},
			scen.Op{Op: "pkg_set_level", Lvl: level})
		for _, o := range fopts {
			o.Op, o.L = "set", 0
			sc.Setup = append(sc.Setup, o)
		}
	} else {
		op := scen.Op{Op: "new_root", R: 1, Name: "t", Named: true, Opts: append(append(append([]scen.Op{}, pre...), scen.Op{Kind: "writer", W: 2, WK: "plain"}, scen.Op{Kind: "level", Lvl: level}), fopts...)}
		sc.Setup = append(sc.Setup, op)
	}
	sc.Setup = append(sc.Setup, scen.Op{Op: "set_debug_mode", B: []bool{false}})
	tk := 0
	others := func(n int) {
		sevs := []int{model.Error, model.Warn, model.Info, model.Debug, model.Trace, model.Always, model.OK, model.Success, model.Fail}
		for k := 0; k < n; k++ {
			sev := scen.Pick(r, sevs)
			name := sevEntryName[sev]
			entry := scen.Pick(r, []string{name, name + "Context", "LogAttrs", "Logit"})
			if isPkg && r.Bool() && entry != "LogAttrs" && entry != "Logit" {
				entry = "pkg." + entry
			}
			tk++
			sc.Setup = append(sc.Setup, scen.Op{Op: "log", L: l, Entry: entry, Lvl: sev, Msg: "o" + tok(tk), Tok: tok(tk)})
		}
	}
	others(r.Intn(4))
	if r.Chance(1, 3) {
		// a history of the flags: they leave the cell's flag set and come back to it before the cell (the
		// SaveFlagsAndMod idiom, or AddFlags/RemoveFlags pairs); while they are away the no-interrupt flag is
		// set, so Panic and Fatal calls made there return normally. What the cell then does is decided by the
		// flags at the cell, not by anything the library saw or decided while they were different
		hasNoInt, hasAlways := false, false
		for _, f := range c.flags {
			hasNoInt = hasNoInt || f == "LnoInterrupt"
			hasAlways = hasAlways || f == "Linterruptalways"
		}
		muted := func(n int) {
			for k := 0; k < n; k++ {
				sev := scen.Pick(r, []int{model.Panic, model.Panic, model.Fatal})
				entry := sevEntryName[sev]
				if r.Chance(1, 3) {
					entry += "Context"
				}
				if isPkg && r.Bool() {
					entry = "pkg." + entry
				}
				tk++
				sc.Setup = append(sc.Setup, scen.Op{Op: "log", L: l, Entry: entry, Lvl: sev, Msg: "o" + tok(tk), Tok: tok(tk)})
			}
		}
		if hasNoInt {
			muted(r.Intn(2))
		}
		toggle := "Linterruptalways"
		var enter, leave scen.Op
		if r.Bool() {
			var mods []string
			if !hasNoInt {
				mods = append(mods, "LnoInterrupt")
			}
			if hasNoInt || r.Bool() {
				if hasAlways {
					mods = append(mods, "-"+toggle)
				} else {
					mods = append(mods, toggle)
				}
			}
			enter, leave = scen.Op{Op: "save_flags", S: mods}, scen.Op{Op: "restore_flags"}
		} else if !hasNoInt {
			enter, leave = scen.Op{Op: "add_flags", S: []string{"LnoInterrupt"}}, scen.Op{Op: "remove_flags", S: []string{"LnoInterrupt"}}
		} else if hasAlways {
			enter, leave = scen.Op{Op: "remove_flags", S: []string{toggle}}, scen.Op{Op: "add_flags", S: []string{toggle}}
		} else {
			enter, leave = scen.Op{Op: "add_flags", S: []string{toggle}}, scen.Op{Op: "remove_flags", S: []string{toggle}}
		}
		sc.Setup = append(sc.Setup, enter)
		muted(r.Intn(3))
		if r.Bool() {
			others(1)
		}
		sc.Setup = append(sc.Setup, leave)
	}
	tk++
	cell := scen.Op{Op: "log", L: l, Entry: c.entry, Lvl: c.sev, Msg: "boom " + tok(tk), Tok: tok(tk), Probe: true}
	if c.entry == "Log" {
		cell.Lvl = stdLevelOf[c.sev]
		cell.I = int64(c.sev)
	}
	if r.Bool() {
		cell.Args = []scen.Arg{{K: "key", S: "k"}, {K: "i", I: int64(r.Intn(1000))}, {K: "key", S: "e"}, {K: "err", S: "some error"}}
	}
	if r.Chance(1, 12) {
		// sizes around the library's internal thresholds (pooled slice hint 128, cap 1024) and beyond
		n := scen.Pick(r, []int{60, 130, 500, 1030, 1500, 2500})
		for k := 0; k < n; k++ {
			cell.Args = append(cell.Args, scen.Arg{K: "attr", Key: fmt.Sprintf("a%d", k), Items: []scen.Arg{{K: "i", I: int64(k)}}})
		}
	}
	if c.variant%4 == 3 && !isPkg {
		// the terminating call is made while calls of another goroutine on another logger are in flight:
		// it must still terminate (or not) by itself, and the other calls must neither panic nor exit
		sc.Engine = "PROC+CONC"
		sc.Note += " concurrent"
		sc.Sched = scen.SchedCfg{StayPermille: r.Range(300, 800)}
		sc.Setup = append(sc.Setup, scen.Op{Op: "new_root", R: 2, Name: "bg", Named: true, Opts: []scen.Op{{Kind: "writer", W: 4, WK: "plain"}, {Kind: "errwriter", W: 4, WK: "plain"}, {Kind: "level", Lvl: model.Always}}})
		bg := scen.Task{ID: 2}
		bgPanics := r.Chance(1, 3)
		for k := r.Range(2, 6); k > 0; k-- {
			tk++
			sev := scen.Pick(r, []int{model.Error, model.Warn, model.Info, model.Debug, model.Always, model.OK})
			if bgPanics && r.Chance(1, 2) {
				sev = model.Panic // a second terminating call, in flight at the same time as the cell's
			}
			bg.Ops = append(bg.Ops, scen.Op{Op: "log", L: 2, Entry: "LogAttrs", Lvl: sev, Msg: "o" + tok(tk), Tok: tok(tk), Args: []scen.Arg{
				{K: "attr", Key: "y1", Y: true, Items: []scen.Arg{{K: "i", I: int64(k)}}}, {K: "attr", Key: "y2", Y: true, Items: []scen.Arg{{K: "i", I: int64(k)}}}}})
		}
		sc.Tasks = []scen.Task{{ID: 1, Ops: []scen.Op{cell}}, bg}
		for k := r.Intn(4); k > 0; k-- {
			sc.Faults = append(sc.Faults, scen.Fault{W: 4, Attempt: r.Intn(6), Kind: "stall", N: r.Range(1, 4)})
		}
		if r.Chance(1, 2) {
			// the other goroutine's Write is in flight while the cell terminates, and then fails (its diagnostic is
			// one more call in flight); mostly its first Write, so that it can be under way before the cell starts
			sc.Faults = append(sc.Faults, scen.Fault{W: 4, Attempt: scen.Pick(r, []int{0, 0, 0, 1, 2}), Kind: "stallerr", N: r.Intn(6)})
			if r.Bool() {
				// and a third goroutine on that logger: more calls under way when the cell starts
				bg2 := scen.Task{ID: 3}
				for k := r.Range(1, 3); k > 0; k-- {
					tk++
					bg2.Ops = append(bg2.Ops, scen.Op{Op: "log", L: 2, Entry: "LogAttrs", Lvl: scen.Pick(r, []int{model.Error, model.Info, model.Always}), Msg: "o" + tok(tk), Tok: tok(tk)})
				}
				sc.Tasks = append(sc.Tasks, bg2)
			}
		}
		if r.Chance(1, 3) {
			// the other goroutine's destination never comes back: its call stays in flight for good, the
			// terminating call must still do what it has to do
			sc.Faults = append(sc.Faults, scen.Fault{W: 4, Attempt: r.Intn(3), Kind: "hang"})
		}
		return sc
	}
	sc.Setup = append(sc.Setup, cell)
	others(r.Range(1, 3))
	return sc
}

func c12Expect(sc *scen.Scenario) (cellIdx int, cell *scen.Op, terminate bool, admitted model.Decision, level int) {
	cellIdx = -1
	for i := range sc.Setup {
		if sc.Setup[i].Probe {
			cellIdx, cell = i, &sc.Setup[i]
		}
	}
	upto := cellIdx
	if cell == nil {
		// the concurrent variant: the cell is the only op of task 1 (cellIdx stays -1)
		for ti := range sc.Tasks {
			for i := range sc.Tasks[ti].Ops {
				if sc.Tasks[ti].Ops[i].Probe {
					cell = &sc.Tasks[ti].Ops[i]
				}
			}
		}
		upto = len(sc.Setup)
	}
	if cell == nil {
		return -1, nil, false, model.Unknown, 0
	}
	level = -1
	for i := 0; i < upto; i++ {
		op := &sc.Setup[i]
		switch op.Op {
		case "pkg_set_level":
			level = op.Lvl
		case "new_root":
			if op.R != cell.L {
				continue
			}
			for _, o := range op.Opts {
				if o.Kind == "level" {
					level = o.Lvl
				}
			}
		}
	}
	sev := cell.Lvl
	if cell.Entry == "Log" {
		sev = int(cell.I)
	}
	admitted = model.NewRegistry().Admitted(level, sev, false)
	fl := c12FlagsAt(sc, upto)
	noInt, always := fl["LnoInterrupt"], fl["Linterruptalways"]
	terminate = admitted == model.Admit && !noInt && (sc.World.Mode == "production" || always)
	return
}

// c12FlagsAt folds the flag operations of the set-up list before index upto over the flags the world starts with:
// the two flags the statement speaks about, as they are when op upto runs.
func c12FlagsAt(sc *scen.Scenario, upto int) map[string]bool {
	fl := map[string]bool{}
	for _, f := range sc.World.Flags {
		fl[f] = true
	}
	var saved []map[string]bool
	for i := 0; i < upto && i < len(sc.Setup); i++ {
		op := &sc.Setup[i]
		switch op.Op {
		case "add_flags":
			for _, f := range op.S {
				fl[f] = true
			}
		case "remove_flags":
			for _, f := range op.S {
				delete(fl, f)
			}
		case "save_flags":
			c := map[string]bool{}
			for k, v := range fl {
				c[k] = v
			}
			saved = append(saved, c)
			for _, f := range op.S {
				if strings.HasPrefix(f, "-") {
					delete(fl, f[1:])
				} else {
					fl[f] = true
				}
			}
		case "restore_flags":
			if n := len(saved); n > 0 {
				fl = saved[n-1]
				saved = saved[:n-1]
			}
		}
	}
	return fl
}

// DeathExpected: a Fatal cell that must terminate ends the process.
func (p *C12) DeathExpected(sc *scen.Scenario, run *orch.Run) bool {
	_, cell, term, _, _ := c12Expect(sc)
	if cell == nil {
		return false
	}
	sev := cell.Lvl
	if cell.Entry == "Log" {
		sev = int(cell.I)
	}
	return term && sev == model.Fatal && !run.TimedOut
}

func (p *C12) WellFormed(sc *scen.Scenario) bool {
	n := 0
	for i := range sc.Setup {
		op := &sc.Setup[i]
		if op.Probe {
			n++
			if op.Tok == "" || !strings.Contains(op.Msg, op.Tok) {
				return false
			}
		}
		if op.Op == "log" && op.Tok == "" {
			return false
		}
		if op.Op == "log" && !op.Probe && (op.Lvl == model.Panic || op.Lvl == model.Fatal) && !c12FlagsAt(sc, i)["LnoInterrupt"] {
			return false // a terminating call other than the cell is only made where the statement says it returns
		}
		if op.Op == "set_flags" || op.Op == "reset_flags" {
			return false // the fold of c12FlagsAt does not know the library's other flags
		}
	}
	for ti := range sc.Tasks {
		for i := range sc.Tasks[ti].Ops {
			op := &sc.Tasks[ti].Ops[i]
			if op.Op != "log" || op.Tok == "" {
				return false
			}
			if op.Probe {
				n++
				if sc.Tasks[ti].ID != 1 || i != 0 || len(sc.Tasks[ti].Ops) != 1 || !strings.Contains(op.Msg, op.Tok) {
					return false
				}
			} else if op.L != 2 || op.Lvl == model.Fatal || op.Entry != "LogAttrs" {
				return false
			}
		}
	}
	return n == 1 && (sc.World.Mode == "production" || sc.World.Mode == "testing") && sc.World.Stream && sc.World.FileDir != ""
}

func (p *C12) Check(sc *scen.Scenario, run *orch.Run, env *orch.Env) []orch.Violation {
	var out []orch.Violation
	add := func(rule, witness, format string, a ...any) {
		out = append(out, orch.Violation{Rule: rule, Witness: witness, Detail: fmt.Sprintf(format, a...)})
	}
	cellIdx, cell, terminate, admitted, level := c12Expect(sc)
	if cell == nil {
		return nil
	}
	sev := cell.Lvl
	if cell.Entry == "Log" {
		sev = int(cell.I)
	}
	sevName := model.LevelName(sev)
	ops := indexOps(run)
	where := fmt.Sprintf("entry=%s mode=%s flags=%s", cell.Entry, sc.World.Mode, strings.Join(sc.World.Flags, "+"))
	for i := range sc.Setup {
		if sc.Setup[i].Op == "save_flags" || sc.Setup[i].Op == "add_flags" || sc.Setup[i].Op == "remove_flags" {
			where += " flag-history"
			break
		}
	}
	if len(sc.Tasks) > 0 {
		where += " concurrent"
	}
	ctx := fmt.Sprintf("%s at %s on a logger at %s, %s process, flags %v", cell.Entry, sevName, model.LevelName(level), sc.World.Mode, sc.World.Flags)
	died := worldDied(run)
	file := run.Files["w1.log"]

	// negative cases: no other call ever panics or exits
	cellKey := opKey("setup", 0, cellIdx+1)
	cellOp := cellIdx + 1
	if cellIdx < 0 {
		cellKey, cellOp = opKey("task", 1, 1), 1
	}
	deathAt := -1
	for i := range sc.Setup {
		o := ops[opKey("setup", 0, i+1)]
		if o == nil {
			continue
		}
		if i != cellIdx && o.Panic != nil {
			add("C12.other-panic", "entry="+sc.Setup[i].Entry, "%s at severity %s panicked: %s", sc.Setup[i].Entry, model.LevelName(sc.Setup[i].Lvl), o.Panic.S)
		}
		if o.Started && !o.Ended && o.Panic == nil {
			deathAt = i
		}
	}
	cellUnfinished := deathAt == cellIdx
	if cellIdx < 0 {
		// concurrent variant: the other task's calls may be parked in flight when the process exits, that is
		// not their doing; what counts is whether the cell itself was still running
		co := ops[cellKey]
		cellUnfinished = deathAt < 0 && co != nil && co.Started && !co.Ended && co.Panic == nil
		for _, t := range sc.Tasks {
			for i := range t.Ops {
				if t.Ops[i].Probe {
					continue
				}
				o := ops[opKey("task", t.ID, i+1)]
				if o == nil {
					continue
				}
				if t.Ops[i].Lvl == model.Panic {
					// a second terminating call (the other logger is at Always, so it is admitted): it must
					// panic with its own message exactly when this process and these flags say so, whatever
					// the cell's call is doing at that moment
					fl := c12FlagsAt(sc, len(sc.Setup))
					noInt, always := fl["LnoInterrupt"], fl["Linterruptalways"]
					must := !noInt && (sc.World.Mode == "production" || always)
					switch {
					case must && o.Ended && o.Panic == nil:
						add("C12.no-panic", where+" second-call", "a Panic call of another goroutine on another logger, made while the cell's call was in flight, returned normally")
					case must && o.Panic != nil && o.Panic.S != t.Ops[i].Msg:
						add("C12.panic-value", where+" second-call", "the other goroutine's Panic call gave %q, expected its own message %q", o.Panic.S, t.Ops[i].Msg)
					case !must && o.Panic != nil:
						add("C12.unexpected-panic", where+" second-call", "the other goroutine's Panic call must not terminate here, but panicked with %q", o.Panic.S)
					}
					continue
				}
				if o.Panic != nil {
					add("C12.other-panic", "entry="+t.Ops[i].Entry+" concurrent", "%s at severity %s (another goroutine, another logger) panicked: %s", t.Ops[i].Entry, model.LevelName(t.Ops[i].Lvl), o.Panic.S)
				}
			}
		}
	}
	if died && !cellUnfinished {
		what := "before the first op"
		if deathAt >= 0 {
			what = fmt.Sprintf("during setup[%d] %s %s", deathAt, sc.Setup[deathAt].Op, sc.Setup[deathAt].Entry)
		} else if cellIdx < 0 {
			what = "while the Panic/Fatal cell was not running (during a call of the other goroutine, or after all calls)"
		}
		add("C12.other-exit", "world", "the process ended (exit=%d) %s, not in the Panic/Fatal cell; stderr=%.200q", run.ExitCode, what, lastLines(run.Stderr, 200))
		return dedupe(out)
	}
	o := ops[cellKey]
	if o == nil {
		return dedupe(out)
	}
	recorded := 0
	for _, w := range o.Writes {
		if w.W == 1 && containsTok(w.P, cell.Tok) {
			recorded++
		}
	}
	inFile := bytes.Contains(file, []byte(cell.Tok))
	completeInFile := false
	for _, line := range bytes.SplitAfter(file, []byte("\n")) {
		if bytes.Contains(line, []byte(cell.Tok)) && bytes.HasSuffix(line, []byte("\n")) {
			completeInFile = true
		}
	}
	switch {
	case admitted == model.Admit:
		if recorded != 1 || !inFile || !completeInFile {
			add("C12.record", where, "%s: the complete record must be in the destination before anything else happens: write events=%d, token in file read after the process=%v, complete line=%v", ctx, recorded, inFile, completeInFile)
		}
	case admitted == model.Deny:
		if recorded != 0 || inFile {
			add("C12.unadmitted", where, "%s: not admitted, yet the destination received it", ctx)
		}
	}
	switch {
	case terminate && sev == model.Panic:
		if o.Panic == nil {
			add("C12.no-panic", where, "%s: an admitted Panic call must panic with the message, it returned normally (world died=%v exit=%d)", ctx, died, run.ExitCode)
		} else {
			if o.Panic.S != cell.Msg || !strings.Contains(string(o.Panic.V), `"string"`) {
				add("C12.panic-value", where, "%s: recover() gave %q (%s), expected the message %q as a string", ctx, o.Panic.S, string(o.Panic.V), cell.Msg)
			}
			// the record came first
			for _, w := range o.Writes {
				if w.Q > o.Panic.Q {
					add("C12.order", where, "%s: a write happened after the panic", ctx)
				}
			}
		}
		if died {
			add("C12.other-exit", "after-panic", "%s: the process ended (exit=%d) although a Panic is recoverable", ctx, run.ExitCode)
		}
	case terminate && sev == model.Fatal:
		if !died {
			add("C12.no-exit", where, "%s: an admitted Fatal call must exit the process, the world ran on to its end marker", ctx)
		} else {
			if run.ExitCode != 253 {
				add("C12.exit-status", where, "%s: exit status %d, expected 253 (-3)", ctx, run.ExitCode)
			}
			// nothing after the record
			last := run.Events[len(run.Events)-1]
			if cellIdx < 0 {
				// concurrent variant: what the other goroutine did meanwhile is not the cell's business;
				// the last thing the cell's own goroutine did must be the record's write
				for k := len(run.Events) - 1; k >= 0; k-- {
					if run.Events[k].T == 1 {
						last = run.Events[k]
						break
					}
				}
			}
			// (with a failing member in the device the last write may be the diagnostic about it)
			if !(last.K == "write" && last.Op == cellOp && (cellIdx >= 0 || last.T == 1)) {
				add("C12.after-record", where, "%s: the last event before the exit is %s (op %d), expected the record's write", ctx, last.K, last.Op)
			}
		}
	default:
		if o.Panic != nil {
			add("C12.unexpected-panic", where, "%s: must not terminate (admitted=%v), but panicked with %q", ctx, admitted == model.Admit, o.Panic.S)
		}
		if died {
			add("C12.unexpected-exit", where, "%s: must not terminate (admitted=%v), but the process ended with status %d", ctx, admitted == model.Admit, run.ExitCode)
		} else if run.ExitCode != 0 {
			add("C12.exit-status", "normal-end", "%s: world ran to the end but exit status is %d", ctx, run.ExitCode)
		}
	}
	return dedupe(out)
}

func (p *C12) Classify(sc *scen.Scenario, run *orch.Run) (string, bool) {
	return sc.Note, true
}
