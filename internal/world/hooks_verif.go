//go:build verif

package world

import (
	mrand "math/rand"
	mrand2 "math/rand/v2"
	"time"

	"github.com/hedzr/is/stringtool"
	"github.com/hedzr/logg/slog"
)

// attach installs the simulator behind the seams of the overlay build.
func (w *W) attach() {
	w.clock = newSimClock(w)
	if raceEnabled {
		// race world: only its race reports are used, never its bytes. The clock, pool and
		// map-order hooks keep shared state of their own, which the race detector would
		// (rightly) see as unsynchronised between tasks, so the real ones run there.
		slog.VerifYield = func(site int) { w.yield(ySiteFine + site) }
		slog.VerifLock = lockHook{w}
		slog.VerifSpawn = w.spawn
		return
	}
	slog.VerifNow = w.clock.Now
	stringtool.VerifNow = w.clock.Now
	w.pool = newSimPool(w)
	slog.VerifPool = w.pool
	slog.VerifMapOrder = w.mapOrder
	slog.VerifYield = func(site int) { w.yield(ySiteFine + site) }
	slog.VerifLock = lockHook{w}
	slog.VerifSpawn = w.spawn
	// randomness the library draws itself (none on the pinned tree, where names come from a generator
	// seeded with the clock): one stream per episode, from the episode's seed
	slog.VerifRand = mrand.New(mrand.NewSource(int64(w.sc.Seed)))
	slog.VerifRand2 = mrand2.New(mrand2.NewPCG(w.sc.Seed, 0x9e3779b97f4a7c15))
}

func (w *W) detach() {
	slog.VerifNow = nil
	stringtool.VerifNow = nil
	slog.VerifPool = nil
	slog.VerifMapOrder = nil
	slog.VerifYield = nil
	slog.VerifLock = nil
	slog.VerifSpawn = nil
	slog.VerifRand = nil
	slog.VerifRand2 = nil
}

var _ = time.Now

const seamsPresent = true

// spawn is the R8 hook: a goroutine started by the library becomes a task of the scheduler while caller tasks run.
func (w *W) spawn(f func()) {
	if s := w.sch; s != nil && s.spawn(f) {
		return
	}
	go f()
}
