//go:build verif

package world

import (
	"time"

	"github.com/hedzr/is/stringtool"
	"github.com/hedzr/logg/slog"
)

// attach installs the simulator behind the seams of the overlay build.
func (w *W) attach() {
	w.clock = newSimClock(w)
	if raceEnabled {
		// race world: only its race reports are used, never its bytes. The clock, pool and
		// map-order hooks keep shared state of their own, which the race detector would
		// (rightly) see as unsynchronised between tasks, so the real ones run there.
		slog.VerifYield = func(site int) { w.yield(ySiteFine + site) }
		slog.VerifLock = lockHook{w}
		return
	}
	slog.VerifNow = w.clock.Now
	stringtool.VerifNow = w.clock.Now
	w.pool = newSimPool(w)
	slog.VerifPool = w.pool
	slog.VerifMapOrder = w.mapOrder
	slog.VerifYield = func(site int) { w.yield(ySiteFine + site) }
	slog.VerifLock = lockHook{w}
}

func (w *W) detach() {
	slog.VerifNow = nil
	stringtool.VerifNow = nil
	slog.VerifPool = nil
	slog.VerifMapOrder = nil
	slog.VerifYield = nil
	slog.VerifLock = nil
}

var _ = time.Now

const seamsPresent = true
