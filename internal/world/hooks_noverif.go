//go:build !verif

package world

// Without the overlay there are no seams; the world still runs (wall clock,
// real pool, Go's map order). Used only for development builds.
func (w *W) attach() { w.clock = newSimClock(w) }
func (w *W) detach() {}

const seamsPresent = false
