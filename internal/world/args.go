package world

import (
	"context"
	"errors"
	"fmt"
	"math"
	"time"

	"github.com/hedzr/logg/slog"
	errorsv3 "gopkg.in/hedzr/errors.v3"

	"verif/internal/scen"
)

// ---- harness value types whose methods are yield points -------------------

type yAttr struct {
	w   *W
	key string
	val any
}

func (a *yAttr) Key() string    { a.w.yield(ySiteAttrKey); return a.key }
func (a *yAttr) Value() any     { a.w.yield(ySiteAttrValue); return a.val }
func (a *yAttr) SetValue(v any) { a.val = v }

type yStringer struct {
	w *W
	s string
}

func (s *yStringer) String() string { s.w.yield(ySiteString); return s.s }

type yError struct {
	w *W
	s string
}

func (e *yError) Error() string { e.w.yield(ySiteError); return e.s }

type plainStringer struct{ s string }

func (s plainStringer) String() string { return s.s }

type ctxKeyStringer struct{ name string }

func (k ctxKeyStringer) String() string { return k.name }

type ctxKeyOther struct{ name string }

type someStruct struct {
	A int
	B string
}

// simCtx is a context whose Value is a yield point.
type simCtx struct {
	context.Context
	w *W
}

func (c *simCtx) Value(key any) any {
	c.w.yield(ySiteCtx)
	return c.Context.Value(key)
}

// ---------------------------------------------------------------------------

func (w *W) ctxKey(k scen.CtxKey) any {
	switch k.Kind {
	case "s":
		return k.Name
	case "st":
		return ctxKeyStringer{k.Name}
	}
	return ctxKeyOther{k.Name}
}

func (w *W) buildCtx(c *scen.CtxSpec) context.Context {
	if c == nil {
		return context.Background()
	}
	if c.Nil {
		return nil
	}
	ctx := context.Background()
	for _, kv := range c.Vals {
		ctx = context.WithValue(ctx, w.ctxKey(kv.Key), w.value(&kv.V))
	}
	if w.inTasks() {
		return &simCtx{ctx, w}
	}
	return ctx
}

// args turns the tagged tree into the free-form argument list of a log call.
func (w *W) args(as []scen.Arg) []any {
	out := make([]any, 0, len(as))
	for i := range as {
		out = append(out, w.value(&as[i]))
	}
	return out
}

func (w *W) attrs(as []scen.Arg) []slog.Attr {
	out := make([]slog.Attr, 0, len(as))
	for i := range as {
		if as[i].K == "nilattr" {
			out = append(out, nil)
			continue
		}
		if a, ok := w.value(&as[i]).(slog.Attr); ok {
			out = append(out, a)
		}
	}
	return out
}

func (w *W) timeOf(t *scen.TimeSpec) time.Time {
	if t == nil {
		return time.Unix(1700000000, 0).UTC()
	}
	return time.Unix(t.S, t.Ns).In(zoneOf(t.Zone))
}

func (w *W) value(a *scen.Arg) any {
	if len(a.X) > 0 && a.S == "" {
		b := *a
		b.S = string(a.X)
		b.X = nil
		return w.value(&b)
	}
	if a.Ref > 0 {
		if v, ok := w.shared[a.Ref]; ok {
			return v
		}
		if w.inTasks() {
			// tasks never write the table (it would be a harness data race in the race world)
			b := *a
			b.Ref = 0
			return w.value(&b)
		}
		b := *a
		b.Ref = 0
		v := w.value(&b)
		w.shared[a.Ref] = v
		return v
	}
	first := func() any {
		if len(a.Items) > 0 {
			return w.value(&a.Items[0])
		}
		return nil
	}
	switch a.K {
	case "s", "key":
		return a.S
	case "i":
		return int(a.I)
	case "i8":
		return int8(a.I)
	case "i16":
		return int16(a.I)
	case "i32":
		return int32(a.I)
	case "i64":
		return a.I
	case "u":
		return uint(a.I)
	case "u8":
		return uint8(a.I)
	case "u16":
		return uint16(a.I)
	case "u32":
		return uint32(a.I)
	case "u64":
		return uint64(a.I)
	case "f":
		return a.F
	case "f32":
		return float32(a.F)
	case "nan":
		return math.NaN()
	case "inf":
		if a.B {
			return math.Inf(-1)
		}
		return math.Inf(1)
	case "c128":
		return complex(a.F, float64(a.I))
	case "c64":
		return complex64(complex(a.F, float64(a.I)))
	case "b":
		return a.B
	case "nil":
		return nil
	case "dur":
		return time.Duration(a.I)
	case "time":
		return time.Unix(a.I, 0).UTC()
	case "err":
		if a.Y {
			return &yError{w, a.S}
		}
		return errors.New(a.S)
	case "stackerr":
		return errorsv3.New(a.S) // an error carrying its own stack frame
	case "nilerr":
		var e error
		return e
	case "relog":
		// a value that logs while it is being formatted: its String() issues a record of its own on
		// another logger (if the world has it) and then returns its text
		return &relogStringer{w: w, l: int(a.I), tok: a.S}
	case "stringer":
		if a.Y {
			return &yStringer{w, a.S}
		}
		return plainStringer{a.S}
	case "bytes":
		return []byte(a.S)
	case "ints":
		r := make([]int, len(a.Items))
		for i := range a.Items {
			r[i] = int(a.Items[i].I)
		}
		return r
	case "strs":
		r := make([]string, len(a.Items))
		for i := range a.Items {
			r[i] = a.Items[i].S
		}
		return r
	case "bools":
		r := make([]bool, len(a.Items))
		for i := range a.Items {
			r[i] = a.Items[i].B
		}
		return r
	case "floats":
		r := make([]float64, len(a.Items))
		for i := range a.Items {
			r[i] = a.Items[i].F
		}
		return r
	case "durs":
		r := make([]time.Duration, len(a.Items))
		for i := range a.Items {
			r[i] = time.Duration(a.Items[i].I)
		}
		return r
	case "times":
		r := make([]time.Time, len(a.Items))
		for i := range a.Items {
			r[i] = time.Unix(a.Items[i].I, 0).UTC()
		}
		return r
	case "anys":
		return w.args(a.Items)
	case "struct":
		return someStruct{int(a.I), a.S}
	case "pstruct":
		return &someStruct{int(a.I), a.S}
	case "ustruct": // a method-less struct whose fields are not exported (plain, behind a pointer, as element)
		v := hiddenStruct{host: a.S, port: int(a.I), inner: struct{ n int }{int(a.I)}}
		switch a.I % 4 {
		case 1:
			return &v
		case 2:
			return []hiddenStruct{v, v}
		case 3:
			return map[string]hiddenStruct{"a": v}
		}
		return v
	case "map":
		m := map[string]int{}
		for i := range a.Items {
			m[a.Items[i].S] = int(a.Items[i].I)
		}
		return m
	case "func":
		return func() {}
	case "chan":
		return make(chan int)
	case "ptr":
		x := int(a.I)
		return &x
	case "nilptr":
		var p *int
		return p
	case "level":
		return slog.Level(a.I)
	case "attr":
		if a.Y {
			return &yAttr{w, a.Key, first()}
		}
		return slog.NewAttr(a.Key, first())
	case "typed": // strongly typed constructors
		switch v := first().(type) {
		case string:
			return slog.String(a.Key, v)
		case int:
			return slog.Int(a.Key, v)
		case bool:
			return slog.Bool(a.Key, v)
		case float64:
			return slog.Float64(a.Key, v)
		case time.Duration:
			return slog.Duration(a.Key, v)
		case time.Time:
			return slog.Time(a.Key, v)
		case int8:
			return slog.Int8(a.Key, v)
		case int16:
			return slog.Int16(a.Key, v)
		case int32:
			return slog.Int32(a.Key, v)
		case int64:
			return slog.Numeric(a.Key, v)
		case uint:
			return slog.Uint(a.Key, v)
		case uint8:
			return slog.Uint8(a.Key, v)
		case uint16:
			return slog.Uint16(a.Key, v)
		case uint32:
			return slog.Uint32(a.Key, v)
		case uint64:
			return slog.Uint64(a.Key, v)
		case float32:
			return slog.Float32(a.Key, v)
		case complex64:
			return slog.Complex64(a.Key, v)
		case complex128:
			return slog.Complex128(a.Key, v)
		default:
			return slog.Any(a.Key, v)
		}
	case "group":
		return slog.Group(a.Key, w.args(a.Items)...)
	case "ggroup": // NewGroupedAttr with Attr items
		return slog.NewGroupedAttr(a.Key, w.attrs(a.Items)...)
	case "egroup":
		return slog.NewGroupedAttrEasy(a.Key, w.args(a.Items)...)
	case "attrs":
		return slog.Attrs(w.attrs(a.Items))
	case "attrslice":
		return w.attrs(a.Items)
	case "newattrs":
		return slog.NewAttrs(w.args(a.Items)...)
	case "nilattr":
		var x slog.Attr
		return x
	}
	return a.S
}

// relogStringer logs a record through logger l from inside its String method.
type relogStringer struct {
	w   *W
	l   int
	tok string
}

func (r *relogStringer) String() string {
	if l := r.w.logger(r.l); l != nil {
		l.Info("nested " + r.tok)
	}
	n := 0
	for _, c := range r.tok {
		if c >= '0' && c <= '9' {
			n = n*10 + int(c-'0')
		}
	}
	return fmt.Sprintf("relog-%d", n)
}

type hiddenStruct struct {
	host  string
	port  int
	inner struct{ n int }
}
