package world

import "github.com/hedzr/is/term/color"

func colorOf(i int64) color.Color {
	if i <= 0 {
		return color.NoColor
	}
	return color.Color(i)
}

func bgOf(j int64) []color.Color {
	if j <= 0 {
		return nil
	}
	return []color.Color{color.Color(j)}
}
