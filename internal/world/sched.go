package world

import (
	"os"
	"runtime"
	"sync/atomic"

	"verif/internal/scen"
)

// Yield sites (classes). A scenario can mask classes out (SchedCfg.YieldMask).
const (
	ySiteAttrKey = iota
	ySiteAttrValue
	ySiteString
	ySiteError
	ySiteCtx
	ySiteWrite
	ySiteWriteExit
	ySiteSetLevel
	ySiteStall
	ySiteOp
	ySiteFine = 100 // + R4 site index
)

// sched releases exactly one task at a time. Two parking mechanisms produce the
// same schedule from the same tape: channels (default) and, in the race world,
// race-transparent spinning (no happens-before edge visible to ThreadSanitizer).
type sched struct {
	w      *W
	n      int
	spin   bool
	wake   []chan struct{}
	done   chan struct{}
	joined chan int // every task reports here after its last access: a real edge task -> orchestrating goroutine only

	// The fields below are touched by every task; in the race world only from
	// //go:norace functions and only as fixed-size arrays.
	cur       int
	turn      int
	alive     [maxTasks]bool
	nAlive    int
	waiting   [maxTasks]uintptr // R5: the lock a task is blocked on (0 = runnable)
	lockWaits int
	hung      [maxTasks]bool // the task sits in a Write that never returns ("hang" fault)
	nHung     int
	nStuck    int            // tasks left waiting behind a hung one when the episode ended
	seq       bool           // the scheduler of a sequential phase (set-up, tail): task 1 is the interpreter itself, event identity 0
	gone      [maxTasks]bool // R8: the library goroutine in this slot has ended
	owner     [maxTasks]int  // R8: for a goroutine the library started itself, the caller task on whose behalf it runs
	spawned   int
	yields    int
	maxYields int
	switches  int
	inLogSw   int
	stay      int
	mask      int
	budget    string
	finished  bool

	// PCT-like mode: preempt exactly at these yield counts (ascending), nowhere else
	pct     int
	pctAt   [32]int
	pctNext int

	// spin-mode tape (fixed arrays, inline splitmix)
	rs        uint64
	replay    bool
	tin       [1 << 16]int32
	tinLen    int
	tpos      int
	tout      [1 << 16]int32
	toutLen   int
	schedHash uint64
}

func (w *W) runTasks() {
	sc := w.sc
	n := len(sc.Tasks)
	if n > maxTasks-1 {
		n = maxTasks - 1
	}
	s := &sched{w: w, n: n, spin: raceEnabled, done: make(chan struct{}), joined: make(chan int, 1<<16)}
	s.stay = sc.Sched.StayPermille
	if s.stay <= 0 {
		s.stay = 800
	}
	s.mask = sc.Sched.YieldMask
	s.maxYields = sc.Sched.MaxYields
	if s.maxYields <= 0 {
		s.maxYields = 400000
	}
	s.rs = scen.Mix(sc.Seed, 1)
	if sc.Tapes != nil && sc.Tapes.Sched != nil {
		s.replay = true
		for i, v := range sc.Tapes.Sched {
			if i >= len(s.tin) {
				break
			}
			s.tin[i] = int32(v)
			s.tinLen = i + 1
		}
	}
	if d := sc.Sched.PCTDepth; d > 0 {
		if d > len(s.pctAt) {
			d = len(s.pctAt)
		}
		h := sc.Sched.Horizon
		if h <= 0 {
			h = 1000
		}
		s.pct = d
		for i := 0; i < d; i++ {
			s.pctAt[i] = 1 + s.choose(h, false)
		}
		// ascending order (insertion sort on the fixed array)
		for i := 1; i < d; i++ {
			for j := i; j > 0 && s.pctAt[j] < s.pctAt[j-1]; j-- {
				s.pctAt[j], s.pctAt[j-1] = s.pctAt[j-1], s.pctAt[j]
			}
		}
	}
	s.wake = make([]chan struct{}, maxTasks)
	for i := range s.wake {
		s.wake[i] = make(chan struct{}, 1)
	}
	for i := 1; i <= n; i++ {
		s.alive[i] = true
	}
	s.nAlive = n
	w.sch = s
	if s.spin {
		old := runtime.GOMAXPROCS(1)
		defer runtime.GOMAXPROCS(old)
		w.quiet = true
	}
	s.turn = -1
	s.cur = -1
	for i := 1; i <= n; i++ {
		id := i
		ops := sc.Tasks[i-1].Ops
		go func() {
			s.park(id)
			w.runTaskOps(id, ops)
			s.exit(id)
			s.joined <- id
		}()
	}
	// release the first task
	first := 1 + s.choose(n, false)
	s.release(first)
	<-s.done
	for i := 0; i < n+s.spawned-s.hungCount()-s.nStuck; i++ {
		<-s.joined
	}
	w.quiet = false
	w.stats["sched.yields"] = s.yields
	w.stats["sched.switches"] = s.switches
	w.stats["sched.switches_in_log"] = s.inLogSw
	if s.lockWaits > 0 {
		w.stats["sched.lock_waits"] = s.lockWaits
	}
	w.stats["sched.hash_lo"] = int(s.schedHash & 0x7fffffff)
	// export the consumed tape
	out := make([]int, s.toutLen)
	for i := 0; i < s.toutLen; i++ {
		out[i] = int(s.tout[i])
	}
	w.tSched.out = out
}

// runSeq runs a sequential phase (set-up, tail) on the calling goroutine, under a scheduler of its own in which
// that goroutine is the only task to begin with. As long as the library starts no goroutine there, nothing is
// decided and nothing is consumed (one task: no yield point chooses). A goroutine the library starts (rule R8)
// becomes a second task, and from then on the phase is scheduled like the concurrent one - by choices that are a
// function of the episode's seed, not part of the recorded tape (which belongs to the caller tasks' phase).
func (w *W) runSeq(phase string, ops []scen.Op) {
	s := &sched{w: w, n: 1, seq: true, spin: raceEnabled, done: make(chan struct{}), joined: make(chan int, 1<<16)}
	s.stay = 500
	s.maxYields = 400000
	s.rs = scen.Mix(w.sc.Seed, scen.HashString("seq:"+phase))
	s.wake = make([]chan struct{}, maxTasks)
	for i := range s.wake {
		s.wake[i] = make(chan struct{}, 1)
	}
	s.alive[1] = true
	s.nAlive = 1
	s.cur = 1
	s.turn = 1
	w.sch = s
	w.runOps(0, phase, ops)
	s.finished = true
	w.sch = nil
	if s.lockWaits > 0 {
		w.stats["sched.lock_waits_seq"] += s.lockWaits
	}
	if s.spawned > 0 {
		w.stats["sched.library_goroutines_seq"] += s.spawned
	}
}

func (w *W) runTaskOps(task int, ops []scen.Op) {
	if w.quiet {
		for i := range ops {
			w.runOpQuiet(task, &ops[i])
			w.yield(ySiteOp)
		}
		return
	}
	for i := range ops {
		w.curOp[task] = i + 1
		w.curPh[task] = "task"
		w.runOp(task, "task", i, &ops[i])
		w.yield(ySiteOp)
	}
	w.curOp[task] = 0
}

func (w *W) runOpQuiet(task int, op *scen.Op) {
	defer func() {
		if r := recover(); r != nil {
			w.logDepth[task] = 0
			w.quietPanics[task]++
		}
	}()
	w.exec(task, op)
}

//go:norace
func (s *sched) current() int { return s.cur }

// choose consumes one sched-tape entry: a value in [0,n). With stay semantics
// 0 means "keep running the current task".
//
//go:norace
func (s *sched) choose(n int, stayBias bool) int {
	v := 0
	if s.replay && !s.seq {
		if s.tpos < s.tinLen {
			v = int(s.tin[s.tpos])
			if v < 0 {
				v = -v
			}
		}
		s.tpos++
	} else {
		s.rs += 0x9e3779b97f4a7c15
		z := s.rs
		z = (z ^ (z >> 30)) * 0xbf58476d1ce4e5b9
		z = (z ^ (z >> 27)) * 0x94d049bb133111eb
		z ^= z >> 31
		if stayBias {
			if int(z%1000) < s.stay {
				v = 0
			} else if n > 1 {
				v = 1 + int((z/1000)%uint64(n-1))
			}
		} else if n > 0 {
			v = int(z % uint64(n))
		}
	}
	if n > 0 {
		v %= n
	} else {
		v = 0
	}
	if s.toutLen < len(s.tout) {
		s.tout[s.toutLen] = int32(v)
		s.toutLen++
	}
	s.schedHash = (s.schedHash ^ uint64(v+1)) * 1099511628211
	return v
}

//go:norace
func (s *sched) park(me int) {
	if s.spin {
		for s.turn != me {
			runtime.Gosched()
		}
		return
	}
	<-s.wake[me]
}

//go:norace
func (s *sched) release(next int) {
	s.cur = next
	if s.spin {
		s.turn = next
		return
	}
	s.wake[next] <- struct{}{}
}

// yield is called by the running task at a yield point.
//
//go:norace
func (s *sched) yield(site int, inLog bool) {
	if s.n <= 1 || s.finished {
		return
	}
	if s.mask != 0 && site < ySiteFine && s.mask&(1<<uint(site)) == 0 {
		return
	}
	s.yields++
	if s.yields > s.maxYields {
		s.budget = "yield budget exceeded"
		return
	}
	me := s.cur
	others := s.runnableOthers(me)
	if others <= 0 {
		return
	}
	v := 0
	if s.pct > 0 {
		hit := false
		for s.pctNext < s.pct && s.pctAt[s.pctNext] <= s.yields {
			if s.pctAt[s.pctNext] == s.yields {
				hit = true
			}
			s.pctNext++
		}
		if !hit {
			return
		}
		v = 1 + s.choose(others, false)
	} else {
		v = s.choose(others+1, true)
	}
	if v == 0 {
		return
	}
	// the v-th other alive task in id order
	next := -1
	k := 0
	for i := 1; i <= s.n; i++ {
		if i != me && s.alive[i] && s.waiting[i] == 0 && !s.hung[i] {
			k++
			if k == v {
				next = i
				break
			}
		}
	}
	if next < 0 {
		return
	}
	s.switches++
	if inLog {
		s.inLogSw++
	}
	s.release(next)
	s.park(me)
}

//go:norace
func (s *sched) runnableOthers(me int) int {
	k := 0
	for i := 1; i <= s.n; i++ {
		if i != me && s.alive[i] && s.waiting[i] == 0 && !s.hung[i] {
			k++
		}
	}
	return k
}

//go:norace
func (s *sched) hungCount() int { return s.nHung }

// hang parks the running task for good (its Write never returns). Another runnable task goes on; when
// only hung tasks are left the episode is over; when the others all wait for locks, that is a deadlock.
//
//go:norace
func (s *sched) hang() {
	me := s.cur
	if s.n <= 1 || s.finished || me <= 0 {
		return
	}
	s.hung[me] = true
	s.nHung++
	others := s.runnableOthers(me)
	if others == 0 {
		// everybody else has finished or waits - behind this Write, for all the scheduler knows (a logger that lets
		// one caller write at a time makes the others wait for a destination that never comes back; that is the
		// destination's doing). The episode is over; which calls were left unfinished is for the oracle to judge.
		s.endWithHung()
		select {}
	}
	v := 1 + s.choose(others, false)
	k := 0
	for i := 1; i <= s.n; i++ {
		if i != me && s.alive[i] && s.waiting[i] == 0 && !s.hung[i] {
			k++
			if k == v {
				s.switches++
				s.release(i)
				break
			}
		}
	}
	select {}
}

// blocked is called (through the R5 lock seam) by the running task when the lock it
// wants is held by a parked task: the task is marked as waiting and another runnable
// task is released. It returns true when the caller should try the lock again, false
// when the scheduler cannot help (no tasks are running: setup/tail phases).
//
//go:norace
func (s *sched) blocked(key uintptr) bool {
	if s.n <= 1 || s.finished || s.cur <= 0 {
		return false
	}
	me := s.cur
	others := s.runnableOthers(me)
	if others == 0 && s.nHung > 0 {
		// the only tasks that could release what this one waits for sit in a Write that never returns
		s.waiting[me] = key
		s.endWithHung()
		select {}
	}
	if others == 0 {
		if softKey(key) {
			// a channel, condition variable or wait group (rule R7): somebody outside the scheduler's view (a timer, a
			// goroutine of the library's own) may still wake this task, so it blocks for real; if nobody does, the Go
			// runtime reports the deadlock and the marker says that every task was accounted for
			allWaitMark()
			return false
		}
		// every live task waits for a lock: a deadlock of the library under this schedule
		s.deadlock(me, key)
		return false
	}
	s.waiting[me] = key
	s.lockWaits++
	v := 1 + s.choose(others, false)
	k := 0
	for i := 1; i <= s.n; i++ {
		if i != me && s.alive[i] && s.waiting[i] == 0 && !s.hung[i] {
			k++
			if k == v {
				s.switches++
				s.release(i)
				s.park(me)
				return true
			}
		}
	}
	s.waiting[me] = 0
	return true
}

//go:norace
func (s *sched) lockReleased(key uintptr) {
	if s.n <= 1 || s.finished {
		return
	}
	for i := 1; i <= s.n; i++ {
		if s.waiting[i] == key || (s.waiting[i] == selectKey && softKey(key)) {
			s.waiting[i] = 0
		}
	}
}

// Keys of rule R7 (channels, condition variables, wait groups) are odd, lock keys (addresses) are even.
//
//go:norace
func softKey(key uintptr) bool { return key&1 == 1 }

// selectKey is what a task in a polling select waits for: any channel operation wakes it.
const selectKey = ^uintptr(0)

// spawn makes a goroutine that the library starts itself (rule R8: a go statement in package slog) one more task:
// it is parked like the others, runs when the tape picks it, and its events carry the identity of the caller task
// on whose behalf it was started. It reports false when no scheduler decision can be made (no tasks are running,
// the table is full): the goroutine then runs freely.
//
//go:norace
func (s *sched) spawnedTask(t int) bool { return t > 0 && t < maxTasks && s.owner[t] != 0 }

//go:norace
func (s *sched) spawn(f func()) bool {
	if s.n <= 0 || s.finished || s.cur <= 0 {
		return false
	}
	// the slot of a library goroutine that has ended is used again
	id := 0
	for i := 1; i <= s.n; i++ {
		if s.owner[i] != 0 && !s.alive[i] && s.gone[i] {
			id = i
			break
		}
	}
	if id == 0 {
		if s.n >= maxTasks-1 {
			return false
		}
		s.n++
		id = s.n
	}
	s.gone[id] = false
	s.alive[id] = true
	s.nAlive++
	s.spawned++
	root := s.cur
	if s.owner[root] != 0 {
		root = s.owner[root]
	}
	s.owner[id] = root
	go func() {
		s.park(id)
		f()
		s.leave(id)
		s.joined <- id
	}()
	return true
}

// leave is exit for a library goroutine: its slot may be handed out again once the next task has been released.
//
//go:norace
func (s *sched) leave(id int) {
	s.gone[id] = true
	s.exit(id)
}

// endWithHung ends the episode when nobody can run and at least one task sits in a Write that never returns.
//
//go:norace
func (s *sched) endWithHung() {
	if !s.finished {
		for i := 1; i <= s.n; i++ {
			if s.alive[i] && !s.hung[i] && s.waiting[i] != 0 {
				s.nStuck++ // it will not come back either
			}
		}
		s.finished = true
		s.cur = 0
		close(s.done)
	}
}

// wakeSoft lets one task that waits for a channel (not a lock) run again when nobody else can: it will try once
// more and then block for real. It reports whether there was one.
//
//go:norace
func (s *sched) wakeSoft() bool {
	for i := 1; i <= s.n; i++ {
		if s.alive[i] && !s.hung[i] && s.waiting[i] != 0 && softKey(s.waiting[i]) {
			s.waiting[i] = 0
			s.release(i)
			return true
		}
	}
	return false
}

//go:norace
func (s *sched) deadlock(me int, key uintptr) {
	os.Stderr.WriteString("verif: DEADLOCK: every live task is blocked on a lock held by a parked or finished task\n")
	s.w.deadlocked()
}

//go:norace
func (s *sched) exit(me int) {
	s.alive[me] = false
	s.nAlive--
	if s.nAlive-s.nHung == 0 {
		// everybody has finished, or sits in a Write that never returns
		s.finished = true
		s.cur = 0
		close(s.done)
		return
	}
	run := s.runnableOthers(me)
	if run == 0 && s.nHung > 0 {
		s.endWithHung()
		return
	}
	if run == 0 {
		if s.wakeSoft() {
			return
		}
		// the finished task leaves only tasks that wait for a lock nobody will release
		s.deadlock(me, 0)
		return
	}
	v := s.choose(run, false)
	k := 0
	for i := 1; i <= s.n; i++ {
		if s.alive[i] && s.waiting[i] == 0 && !s.hung[i] {
			if k == v {
				s.release(i)
				return
			}
			k++
		}
	}
}

// yield is the world-level entry used by all harness callbacks.
func (w *W) yield(site int) {
	s := w.sch
	if s == nil {
		return
	}
	t := s.current()
	inLog := false
	if s.spawnedTask(t) {
		inLog = true // a goroutine of the library's own: it has no call depth of its own in the interpreter
	} else if t >= 0 && t < maxTasks {
		inLog = w.logDepth[t] > 0
	}
	s.yield(site, inLog)
}

// lockHook adapts the scheduler to the R5 seam.
type lockHook struct{ w *W }

func (h lockHook) Blocked(key uintptr) bool {
	if s := h.w.sch; s != nil {
		return s.blocked(key)
	}
	return false // no caller tasks are running (set-up, tail): the caller blocks for real
}

var allWaitSaid atomic.Bool

// allWaitMark notes on stderr that the last runnable task is about to block for real while every other live task
// waits: every task is accounted for, and if nothing outside the scheduler's view wakes this one, the deadlock the
// Go runtime reports next is the library's own. (Written only where the schedule alone decides that it is written.)
func allWaitMark() {
	if allWaitSaid.CompareAndSwap(false, true) {
		os.Stderr.WriteString("verif: ALL-TASKS-WAIT: a task blocks on a channel, condition variable or wait group while every other live task waits\n")
	}
}

func (h lockHook) Released(key uintptr) {
	if s := h.w.sch; s != nil {
		s.lockReleased(key)
	}
}

// deadlocked ends the world: the event log so far is flushed, the process exits with a
// status no scenario expects.
func (w *W) deadlocked() {
	if !w.quiet {
		w.emit(scen.Event{T: w.task(), K: "deadlock", S: "every live task is blocked on a lock"})
	}
	w.out.Flush()
	os.Exit(96)
}
