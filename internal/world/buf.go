package world

import (
	"bytes"
	"errors"
	"fmt"
	"io"
	"runtime"
	"strings"

	"github.com/hedzr/logg/slog"

	"verif/internal/scen"
)

// bufAPI is the listed read/write interface; both *slog.PrintCtx and
// *bytes.Buffer must satisfy it (a missing method is a build failure, exit 2).
type bufAPI interface {
	Write(p []byte) (int, error)
	WriteString(s string) (int, error)
	WriteByte(c byte) error
	WriteRune(r rune) (int, error)
	Read(p []byte) (int, error)
	ReadByte() (byte, error)
	ReadRune() (rune, int, error)
	UnreadByte() error
	UnreadRune() error
	Next(n int) []byte
	ReadBytes(delim byte) ([]byte, error)
	ReadString(delim byte) (string, error)
	ReadFrom(r io.Reader) (int64, error)
	WriteTo(w io.Writer) (int64, error)
	Truncate(n int)
	Grow(n int)
	Reset()
	Len() int
	Bytes() []byte
	String() string
}

var _ bufAPI = (*slog.PrintCtx)(nil)
var _ bufAPI = (*bytes.Buffer)(nil)

var errPeer = errors.New("injected peer failure")
var errWrappedEOF = fmt.Errorf("read body: %w", io.EOF)

// faultyReader plays a script of stream segments. How much spare capacity the buffer offers per
// Read call (len(p)) is an internal matter of each implementation and must not influence the
// stream: a segment of N bytes is handed over in as many calls as it takes.
type faultyReader struct {
	steps []scen.PeerStep
	pos   int
	left  int // bytes of the current segment still to deliver (-1 = segment not started)
	fill  byte
	calls int
}

func (r *faultyReader) Read(p []byte) (int, error) {
	r.calls++
	if r.calls > 10000 {
		return 0, io.EOF
	}
	for {
		if r.pos >= len(r.steps) {
			return 0, io.EOF
		}
		st := r.steps[r.pos]
		switch st.Kind {
		case "eof":
			r.pos++
			return 0, io.EOF
		case "zero":
			r.pos++
			return 0, nil
		case "neg":
			r.pos++
			return -1 - (st.N % 3), nil
		case "over":
			r.pos++
			return len(p) + 1 + st.N%5, nil
		case "panic":
			r.pos++
			panic("peer reader panic")
		}
		if r.left < 0 {
			r.left = st.N
			if r.left < 0 {
				r.left = 0
			}
		}
		n := r.left
		if n > len(p) {
			n = len(p)
		}
		for i := 0; i < n; i++ {
			r.fill++
			p[i] = 'a' + r.fill%26
		}
		r.left -= n
		if r.left > 0 {
			if n == 0 {
				return 0, nil // no room offered: a legal (0, nil)
			}
			return n, nil
		}
		// the segment is complete with this call
		r.pos++
		r.left = -1
		switch st.Kind {
		case "dataeof":
			return n, io.EOF
		case "err":
			return n, errPeer
		case "wrapeof":
			return n, errWrappedEOF
		case "unexpeof":
			return n, io.ErrUnexpectedEOF
		}
		if n == 0 {
			continue // an empty "ok" segment: go on with the next one
		}
		return n, nil
	}
}

// faultyWriter plays a script of Write results and remembers what it accepted.
type faultyWriter struct {
	steps []scen.PeerStep
	pos   int
	got   []byte
}

func (w *faultyWriter) Write(p []byte) (int, error) {
	st := scen.PeerStep{Kind: "ok"}
	if w.pos < len(w.steps) {
		st = w.steps[w.pos]
	}
	w.pos++
	n := len(p)
	switch st.Kind {
	case "ok":
	case "short":
		if st.N < n {
			n = st.N
		}
		if n < 0 {
			n = 0
		}
		w.got = append(w.got, p[:n]...)
		return n, nil
	case "err":
		if st.N < n {
			n = st.N
		}
		if n < 0 {
			n = 0
		}
		w.got = append(w.got, p[:n]...)
		return n, errPeer
	case "over":
		w.got = append(w.got, p...)
		return len(p) + 1 + st.N%5, nil
	case "neg":
		return -1 - st.N%3, nil
	case "panic":
		panic("peer writer panic")
	}
	w.got = append(w.got, p[:n]...)
	return n, nil
}

func normErr(err error) string {
	if err == nil {
		return "<nil>"
	}
	switch {
	case err == io.EOF:
		return "io.EOF"
	case err == io.ErrShortWrite:
		return "io.ErrShortWrite"
	case err == errPeer:
		return "errPeer"
	case err == errWrappedEOF:
		return "errWrappedEOF"
	case err == io.ErrUnexpectedEOF:
		return "io.ErrUnexpectedEOF"
	}
	// an error made by the buffer itself: the two implementations cannot word it identically (their
	// type names differ), so only "an error of the buffer's own" is compared
	return "error(own)"
}

func normText(s string) string {
	s = strings.ReplaceAll(s, "logg/slog.PrintCtx", "bytes.Buffer")
	return s
}

func normPanic(r any) string {
	// the injected peer's own panic passes through the buffer unchanged
	if x, ok := r.(string); ok && strings.Contains(x, "peer ") {
		return "panic(" + x + ")"
	}
	// a panic of the buffer itself: that it panics at this point is compared; its value is not
	// (the two types cannot word it identically, and whether the value is a string, an error or a
	// runtime error - index out of range versus an explicit check - is not part of the claim)
	_ = runtime.Version
	return "panic(own)"
}

// bufStep runs one op on b and renders everything observable as a string.
func bufStep(b bufAPI, op *scen.BufOp, keep func(string)) (out string) {
	defer func() {
		if r := recover(); r != nil {
			out = normPanic(r)
		}
	}()
	switch op.Op {
	case "Write":
		n, err := b.Write(op.Data)
		return fmt.Sprintf("%d,%s", n, normErr(err))
	case "WriteString":
		n, err := b.WriteString(string(op.Data))
		return fmt.Sprintf("%d,%s", n, normErr(err))
	case "WriteByte":
		err := b.WriteByte(byte(op.N))
		return normErr(err)
	case "WriteRune":
		n, err := b.WriteRune(rune(op.R))
		return fmt.Sprintf("%d,%s", n, normErr(err))
	case "Read":
		var p []byte
		if op.N >= 0 {
			p = make([]byte, op.N)
		}
		n, err := b.Read(p)
		if n < 0 || n > len(p) {
			return fmt.Sprintf("badn=%d,%s", n, normErr(err))
		}
		return fmt.Sprintf("%d,%q,%s", n, p[:n], normErr(err))
	case "ReadByte":
		c, err := b.ReadByte()
		return fmt.Sprintf("%d,%s", c, normErr(err))
	case "ReadRune":
		r, sz, err := b.ReadRune()
		return fmt.Sprintf("%d,%d,%s", r, sz, normErr(err))
	case "UnreadByte":
		return normErr(b.UnreadByte())
	case "UnreadRune":
		return normErr(b.UnreadRune())
	case "Next":
		p := b.Next(op.N)
		return fmt.Sprintf("%q", p)
	case "ReadBytes":
		p, err := b.ReadBytes(byte(op.Delim))
		return fmt.Sprintf("%q,%v,%s", p, p == nil, normErr(err))
	case "ReadString":
		s, err := b.ReadString(byte(op.Delim))
		keep(s)
		return fmt.Sprintf("%q,%s", s, normErr(err))
	case "ReadFrom":
		r := &faultyReader{steps: op.Peer, left: -1}
		n, err := b.ReadFrom(r)
		return fmt.Sprintf("%d,%s", n, normErr(err))
	case "WriteTo":
		w := &faultyWriter{steps: op.Peer}
		n, err := b.WriteTo(w)
		return fmt.Sprintf("%d,%s,%q,calls=%d", n, normErr(err), w.got, w.pos)
	case "Truncate":
		b.Truncate(op.N)
		return "ok"
	case "Grow":
		b.Grow(op.N)
		return "ok"
	case "Reset":
		b.Reset()
		return "ok"
	case "Len":
		return fmt.Sprint(b.Len())
	case "Bytes":
		return fmt.Sprintf("%q", b.Bytes())
	case "String":
		s := b.String()
		keep(s)
		return fmt.Sprintf("%q", s)
	}
	return "unknown-op"
}

// runBuf executes a C19 history on both implementations in lock-step.
func (w *W) runBuf(bs *scen.BufScenario) {
	var pc *slog.PrintCtx
	var ref *bytes.Buffer
	init := append([]byte(nil), bs.Init...)
	init2 := append([]byte(nil), bs.Init...)
	switch {
	case bs.Str:
		pc, ref = slog.NewPrintCtxString(string(init)), bytes.NewBufferString(string(init2))
	case bs.NilInit:
		pc, ref = slog.NewPrintCtx(nil), bytes.NewBuffer(nil)
	default:
		pc, ref = slog.NewPrintCtx(init), bytes.NewBuffer(init2)
	}
	state := func(b bufAPI) (s string) {
		defer func() {
			if r := recover(); r != nil {
				s = normPanic(r)
			}
		}()
		return fmt.Sprintf("len=%d str=%q", b.Len(), b.String())
	}
	if a, b := state(pc), state(ref); a != b {
		w.emitV(scen.Event{K: "bufmis", Op: 0, S: "init"}, map[string]string{"impl": a, "ref": b})
		return
	}
	// strings a call has returned are values: what the buffer does later must not change them (bytes.Buffer copies;
	// an encoder that hands out a view of its own storage shows later writes through it). Every string returned
	// is kept next to a copy taken at that moment and looked at again after every later step.
	type held struct {
		at   int
		got  string
		copy string
	}
	var kept []held
	for i := range bs.Ops {
		op := &bs.Ops[i]
		a := bufStep(pc, op, func(s string) {
			if len(s) > 0 && len(kept) < 64 {
				kept = append(kept, held{i + 1, s, strings.Clone(s)})
			}
		})
		b := bufStep(ref, op, func(string) {})
		w.stats["buf.ops"]++
		if strings.HasPrefix(b, "panic(") {
			w.stats["buf.ref_panics"]++
		}
		if (op.Op == "ReadFrom" || op.Op == "WriteTo") && len(op.Peer) > 0 {
			for _, st := range op.Peer {
				if st.Kind != "ok" {
					w.fired["peer_"+st.Kind]++
				}
			}
		}
		if a != b {
			w.emitV(scen.Event{K: "bufmis", Op: i + 1, S: op.Op}, map[string]string{"impl": a, "ref": b})
			return
		}
		if op.Op == "ReadFrom" || op.Op == "WriteTo" {
			// a peer that broke the io.Reader / io.Writer contract (negative count, count beyond the
			// slice) leaves a buffer in a state nobody specifies: the immediate outcome was compared,
			// the history ends here
			broke := false
			for _, st := range op.Peer {
				if st.Kind == "neg" || st.Kind == "over" {
					broke = true
				}
			}
			if broke {
				w.emit(scen.Event{K: "bufok", N: i + 1, S: "ended after a contract-breaking peer"})
				return
			}
		}
		sa, sb := state(pc), state(ref)
		if sa != sb {
			w.emitV(scen.Event{K: "bufmis", Op: i + 1, S: op.Op + ":state"}, map[string]string{"impl": sa, "ref": sb})
			return
		}
		for _, h := range kept {
			if h.got != h.copy {
				w.emitV(scen.Event{K: "bufmis", Op: i + 1, S: op.Op + ":held"}, map[string]string{
					"impl": fmt.Sprintf("the string returned at step %d now reads %q", h.at, h.got), "ref": fmt.Sprintf("%q (a string is a value)", h.copy)})
				return
			}
		}
	}
	w.emit(scen.Event{K: "bufok", N: len(bs.Ops)})
}
