package world

import (
	"strconv"
	"strings"
	"time"
	_ "time/tzdata"

	"verif/internal/scen"
)

// tape is one of the four choice sequences. In generation mode values come
// from the PRNG; in replay mode from the file, and reads past the end give 0.
type tape struct {
	replay bool
	in     []int
	pos    int
	rng    *scen.Rng
	out    []int
}

func newTape(in []int, seed uint64) *tape {
	t := &tape{rng: scen.NewRng(seed), out: []int{}}
	if in != nil {
		t.replay = true
		t.in = in
	}
	return t
}

// draw returns a value in [0,n); gen is used in generation mode so that the
// distribution can be shaped (0 must stay the "default" choice).
func (t *tape) draw(n int, gen func(r *scen.Rng) int) int {
	v := 0
	if t.replay {
		if t.pos < len(t.in) {
			v = t.in[t.pos]
			if v < 0 {
				v = -v
			}
		}
		t.pos++
	} else if gen != nil {
		v = gen(t.rng)
	} else {
		v = t.rng.Intn(n)
	}
	if n > 0 {
		v %= n
	} else {
		v = 0
	}
	t.out = append(t.out, v)
	return v
}

// ---------------------------------------------------------------- clock

type simClock struct {
	w       *W
	now     time.Time
	tick    time.Duration
	zone    *time.Location
	maxStep int64
	minStep int64
	covered int64
	reads   int
	last    time.Time
}

func zoneOf(z string) *time.Location {
	switch {
	case z == "" || z == "UTC":
		return time.UTC
	case z == "Local":
		return time.Local // the very location value, as time.Now() and Time.Local() give it
	case z == "MST-7":
		return time.FixedZone("MST", -7*3600)
	case z[0] == '+' || z[0] == '-':
		// ±hh:mm
		sign := 1
		if z[0] == '-' {
			sign = -1
		}
		var hh, mm int
		parts := strings.Split(z[1:], ":")
		if len(parts) >= 1 {
			hh = atoi(parts[0])
		}
		if len(parts) >= 2 {
			mm = atoi(parts[1])
		}
		return time.FixedZone(z, sign*(hh*3600+mm*60))
	default:
		if loc, err := time.LoadLocation(z); err == nil {
			return loc
		}
	}
	return time.UTC
}

func atoi(s string) int {
	n := 0
	for _, c := range s {
		if c < '0' || c > '9' {
			break
		}
		n = n*10 + int(c-'0')
	}
	return n
}

func newSimClock(w *W) *simClock {
	c := w.sc.World.Clock
	start := time.Unix(c.StartS, c.StartNs)
	if c.StartS == 0 && c.StartNs == 0 {
		start = time.Unix(1700000000, 123456789)
	}
	tick := time.Duration(c.TickNs)
	if tick <= 0 {
		tick = 1
	}
	return &simClock{w: w, now: start, tick: tick, zone: zoneOf(c.Zone), maxStep: c.MaxStep, minStep: c.MinStep}
}

// Now is the only clock logg reads in a simulated world.
func (c *simClock) Now() time.Time {
	t := c.now
	if c.tick > 1 {
		ns := t.UnixNano()
		if t.Year() > 1700 && t.Year() < 2250 {
			t = time.Unix(0, ns-ns%int64(c.tick))
		} else {
			t = t.Truncate(c.tick)
		}
	}
	t = t.In(c.zone)
	c.reads++
	if c.reads > 1 && t.Equal(c.last) && !c.w.inTasks() {
		c.w.stats["clock.same_instant_as_previous_read"]++
	}
	c.last = t
	{
		step := c.minStep
		if step < 1 {
			step = 1 // a real clock never stands still between two reads; coarse ticks are modelled by truncation
		}
		if c.maxStep > c.minStep {
			step += int64(c.w.tClock.draw(int(c.maxStep-c.minStep)+1, nil))
		}
		c.now = c.now.Add(time.Duration(step))
		c.covered += step
	}
	if !c.w.inTasks() {
		c.w.emit(scen.Event{T: c.w.task(), K: "clock", N: t.Nanosecond(), S: strconv.FormatInt(t.Unix(), 10)})
	}
	return t
}

func (c *simClock) jump(d time.Duration) {
	c.now = c.now.Add(d)
	if d > 0 {
		c.covered += int64(d)
	} else {
		c.covered -= int64(d)
	}
	c.w.fired["clock_jump"]++
}

// ---------------------------------------------------------------- pool

type simPool struct {
	w     *W
	free  map[string][]any
	lastN map[string]int
}

func newSimPool(w *W) *simPool { return &simPool{w: w, free: map[string][]any{}} }

func (p *simPool) Get(name string) (any, bool) {
	l := p.free[name]
	if len(l) == 0 {
		p.w.stats["pool.fresh."+name]++
		return nil, false
	}
	// 0 = most recently recycled; len(l) = fresh although recycled ones exist
	v := p.w.tPool.draw(len(l)+1, func(r *scen.Rng) int {
		if r.Chance(6, 10) {
			return 0
		}
		return r.Intn(len(l) + 1)
	})
	if v == len(l) {
		p.w.fired["pool_fresh_despite_recycled"]++
		return nil, false
	}
	ix := len(l) - 1 - v
	x := l[ix]
	p.free[name] = append(l[:ix:ix], l[ix+1:]...)
	p.w.stats["pool.reuse."+name]++
	if v > 0 {
		p.w.stats["pool.reuse_distance_gt1"]++
	}
	return x, true
}

func (p *simPool) Put(name string, x any) bool {
	v := p.w.tPool.draw(8, func(r *scen.Rng) int {
		if r.Chance(1, 8) {
			return 7
		}
		return 0
	})
	if v == 7 {
		p.w.fired["pool_evict"]++
		return true
	}
	p.free[name] = append(p.free[name], x)
	return true
}

// ---------------------------------------------------------------- map order

func factorial(n int) int {
	f := 1
	for i := 2; i <= n; i++ {
		f *= i
		if f > 1<<20 {
			return 1 << 20
		}
	}
	return f
}

// mapOrder decodes one tape entry as the Lehmer code of a permutation (0 = sorted).
func (w *W) mapOrder(site string, n int) []int {
	if n <= 1 {
		return nil
	}
	v := w.tMap.draw(factorial(n), nil)
	w.stats["map.ranges"]++
	if v == 0 {
		return nil
	}
	w.stats["map.unsorted"]++
	idx := make([]int, n)
	for i := range idx {
		idx[i] = i
	}
	perm := make([]int, 0, n)
	code := v
	for i := n; i >= 1; i-- {
		f := factorial(i - 1)
		k := code / f
		code %= f
		if k >= len(idx) {
			k = len(idx) - 1
		}
		perm = append(perm, idx[k])
		idx = append(idx[:k], idx[k+1:]...)
	}
	if !w.inTasks() {
		w.emit(scen.Event{T: w.task(), K: "map", S: site, N: v})
	}
	return perm
}
