//go:build race

package world

const raceEnabled = true
