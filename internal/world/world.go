// Package world is the simulated world: an interpreter of scenario documents
// over the real hedzr/logg, with simulated destinations, clock, pool policy,
// map-iteration order and task scheduler. One scenario = one episode.
package world

import (
	"bufio"
	"encoding/json"
	"fmt"
	"io"
	"log"
	logslog "log/slog"
	"os"
	"path/filepath"
	"reflect"
	"runtime"
	"sort"
	"strings"
	"time"

	"github.com/hedzr/is"
	"github.com/hedzr/logg/slog"

	"verif/internal/scen"
)

// W is the state of one episode.
type W struct {
	sc     *scen.Scenario
	out    *bufio.Writer
	stream bool
	seq    int

	loggers map[int]slog.Logger
	entryID map[*slog.Entry]int
	writers map[int]*simWriter
	shared  map[int]any
	faults  map[[2]int]scen.Fault

	tSched, tPool, tMap, tClock *tape
	clock                       *simClock
	pool                        *simPool
	sch                         *sched
	stats                       map[string]int

	// per task bookkeeping (index = task id)
	curOp    []int
	curPh    []string
	depth    []int
	logDepth []int

	fired map[string]int

	globalAttempt int
	restores      []func()
	flagRestores  []func()

	ifaces      map[int]io.Writer
	handlers    map[int]logslog.Handler
	bridges     map[int]*log.Logger
	quiet       bool // race world, concurrent phase: tasks record nothing shared
	quietPanics [maxTasks]int
}

const maxTasks = 200 // caller tasks (at most 64 are generated) plus goroutines the library starts itself (rule R8)

// Main is the entry point of the world binary: scenarios as JSON lines on
// stdin, event/result lines on fd 3 (stdout when fd 3 is not open).
func Main() {
	var outF *os.File = os.NewFile(3, "events")
	if _, err := outF.Stat(); err != nil {
		outF = os.Stdout
	}
	out := bufio.NewWriterSize(outF, 1<<16)
	in := bufio.NewReaderSize(os.Stdin, 1<<20)
	dec := json.NewDecoder(in)
	for {
		var sc scen.Scenario
		if err := dec.Decode(&sc); err != nil {
			if err != io.EOF {
				fmt.Fprintf(os.Stderr, "simworld: bad scenario: %v\n", err)
				out.Flush()
				os.Exit(2)
			}
			break
		}
		if sc.World.Race {
			fmt.Fprintf(os.Stderr, "@@EPISODE %d\n", sc.Seed)
		}
		runScenario(&sc, out)
		out.Flush()
	}
	out.Flush()
}

func runScenario(sc *scen.Scenario, out *bufio.Writer) {
	w := &W{
		sc: sc, out: out, stream: sc.World.Stream,
		loggers: map[int]slog.Logger{}, entryID: map[*slog.Entry]int{},
		writers: map[int]*simWriter{}, shared: map[int]any{},
		ifaces: map[int]io.Writer{}, handlers: map[int]logslog.Handler{}, bridges: map[int]*log.Logger{},
		faults: map[[2]int]scen.Fault{}, stats: map[string]int{}, fired: map[string]int{},
		curOp: make([]int, maxTasks), curPh: make([]string, maxTasks), depth: make([]int, maxTasks), logDepth: make([]int, maxTasks),
	}
	for _, f := range sc.Faults {
		w.faults[[2]int{f.W, f.Attempt}] = f
	}
	var tp scen.Tapes
	if sc.Tapes != nil {
		tp = *sc.Tapes
	}
	w.tSched = newTape(tp.Sched, scen.Mix(sc.Seed, 1))
	w.tPool = newTape(tp.Pool, scen.Mix(sc.Seed, 2))
	w.tMap = newTape(tp.Map, scen.Mix(sc.Seed, 3))
	w.tClock = newTape(tp.Clock, scen.Mix(sc.Seed, 4))

	res := &scen.Result{}
	defer func() {
		// a panic of the harness itself (not of an op: those are recovered per op)
		if r := recover(); r != nil {
			res.Err = fmt.Sprintf("world panic: %v", r)
		}
		res.Tapes = scen.Tapes{Sched: w.tSched.out, Pool: w.tPool.out, Map: w.tMap.out, Clock: w.tClock.out}
		for k, v := range w.fired {
			w.stats["fault."+k] = v
		}
		res.Stats = w.stats
		if w.clock != nil {
			res.SimNs = w.clock.covered
		}
		b, _ := json.Marshal(scen.Line{R: res})
		w.out.Write(b)
		w.out.WriteByte('\n')
		w.out.Flush()
		w.detach()
	}()

	if sc.Buf != nil {
		w.runBuf(sc.Buf)
		res.Done = true
		return
	}

	w.attach()
	w.applyWorldParams()
	// the printed names of the built-in levels, as this build of logg prints them (oracles that
	// read a record's level field compare with these, not with a table of their own)
	names := make([]string, int(slog.MaxLevel))
	for l := range names {
		names[l] = slog.Level(l).String()
	}
	w.emitV(scen.Event{K: "start", S: fmt.Sprintf("testing=%v level=%d src=%s", is.InTesting(), int(slog.GetLevel()), srcDir())}, map[string]any{"names": names, "slog_terminating": []int{int(slog.LevelFatal), int(slog.LevelPanic)}})

	// setup by task 0 (the interpreter's own goroutine; see runSeq)
	w.runSeq("setup", sc.Setup)

	if len(sc.Tasks) > 0 {
		w.runTasks()
		if w.sch != nil && w.sch.budget != "" {
			// past the yield budget the scheduler stops preempting and the tasks run to completion one
			// after the other: the episode stays valid, it just explores no further switches
			w.stats["sched.yield_budget_exhausted"]++
		}
		w.sch = nil
	}
	w.runSeq("tail", sc.Tail)
	w.emit(scen.Event{K: "end"})
	res.Done = true
}

// srcDir is the directory this package was compiled from (it is what the caller field of
// records issued by the interpreter shows); scenarios refer to it as $SRCDIR, to its
// grand-parent (the module root) as $SRCROOT.
func srcDir() string {
	_, file, _, _ := runtime.Caller(0)
	return filepath.Dir(file)
}

func expandSrc(s string) string {
	if !strings.Contains(s, "$SRC") {
		return s
	}
	d := srcDir()
	s = strings.ReplaceAll(s, "$SRCDIR", d)
	return strings.ReplaceAll(s, "$SRCROOT", filepath.Dir(filepath.Dir(d)))
}

func (w *W) emit(e scen.Event) {
	w.seq++
	e.Q = w.seq
	b, err := json.Marshal(scen.Line{E: &e})
	if err != nil {
		b, _ = json.Marshal(scen.Line{E: &scen.Event{Q: e.Q, K: "encode-error", S: err.Error()}})
	}
	w.out.Write(b)
	w.out.WriteByte('\n')
	if w.stream {
		w.out.Flush()
	}
}

func (w *W) emitV(e scen.Event, v any) {
	b, err := json.Marshal(v)
	if err == nil {
		e.V = b
	} else {
		e.S = "marshal: " + err.Error()
	}
	w.emit(e)
}

// inTasks: the caller tasks' phase is running (not set-up or tail, which have a scheduler of their own since R8).
func (w *W) inTasks() bool { return w.sch != nil && !w.sch.seq }

func (w *W) task() int {
	if w.sch != nil {
		t := w.sch.current()
		if t > 0 && t < maxTasks && w.sch.owner[t] != 0 {
			t = w.sch.owner[t] // a goroutine the library started: its events belong to the call it serves
		}
		if w.sch.seq {
			return 0 // the sequential phases are task 0's
		}
		return t
	}
	return 0
}

// runOps executes a list sequentially on the calling task; each op is
// recovered separately so that a panic is an observation, not a crash.
func (w *W) runOps(task int, phase string, ops []scen.Op) {
	for i := range ops {
		w.curOp[task] = i + 1
		w.curPh[task] = phase
		w.runOp(task, phase, i, &ops[i])
		if w.sc.World.Snap && phase != "task" {
			w.snapshot(task, phase, i)
		}
	}
	w.curOp[task] = 0
}

func (w *W) runOp(task int, phase string, i int, op *scen.Op) {
	defer func() {
		if r := recover(); r != nil {
			w.logDepth[task] = 0
			w.emit(scen.Event{T: task, K: "panic", Op: i + 1, Ph: phase, S: fmt.Sprint(r), V: panicKind(r)})
		}
	}()
	w.emit(scen.Event{T: task, K: "op", Op: i + 1, Ph: phase, S: op.Op})
	w.exec(task, op)
	w.emit(scen.Event{T: task, K: "opend", Op: i + 1, Ph: phase})
}

func panicKind(r any) json.RawMessage {
	k := "other"
	switch r.(type) {
	case string:
		k = "string"
	case error:
		k = "error"
	}
	b, _ := json.Marshal(map[string]string{"type": k, "gotype": fmt.Sprintf("%T", r)})
	return b
}

// entryOf extracts the *Entry behind a Logger without using the API under test.
func entryOf(l slog.Logger) *slog.Entry {
	if l == nil {
		return nil
	}
	if e, ok := l.(*slog.Entry); ok {
		return e
	}
	v := reflect.ValueOf(l)
	for v.Kind() == reflect.Ptr || v.Kind() == reflect.Interface {
		if v.IsNil() {
			return nil
		}
		v = v.Elem()
	}
	if v.Kind() == reflect.Struct {
		for i := 0; i < v.NumField(); i++ {
			f := v.Field(i)
			if f.Type() == reflect.TypeOf((*slog.Entry)(nil)) && f.CanInterface() {
				return f.Interface().(*slog.Entry)
			}
		}
	}
	return nil
}

// register stores l under id unless its entry is already known; it returns the
// id the entry is known by and whether it was new.
func (w *W) register(id int, l slog.Logger) (int, bool) {
	e := entryOf(l)
	if e != nil {
		if old, ok := w.entryID[e]; ok {
			return old, false
		}
	}
	if id == 0 {
		id = 1000 + len(w.loggers)
	}
	for {
		if _, taken := w.loggers[id]; !taken {
			break
		}
		id += 1000
	}
	w.loggers[id] = l
	if e != nil {
		w.entryID[e] = id
	}
	return id, true
}

func (w *W) idOfEntry(e *slog.Entry) int {
	if e == nil {
		return -1
	}
	if id, ok := w.entryID[e]; ok {
		return id
	}
	return -2
}

func (w *W) logger(id int) slog.Logger {
	if l, ok := w.loggers[id]; ok {
		return l
	}
	return nil
}

type snapLogger struct {
	ID     int    `json:"id"`
	Name   string `json:"name"`
	Level  int    `json:"level"`
	JSON   bool   `json:"json"`
	Color  bool   `json:"color"`
	Skip   int    `json:"skip"`
	Parent int    `json:"parent"`
	Root   int    `json:"root"`
}

func (w *W) snapshot(task int, phase string, i int) {
	ids := make([]int, 0, len(w.loggers))
	for id := range w.loggers {
		ids = append(ids, id)
	}
	sort.Ints(ids)
	snaps := make([]snapLogger, 0, len(ids))
	for _, id := range ids {
		l := w.loggers[id]
		snaps = append(snaps, snapLogger{
			ID: id, Name: l.Name(), Level: int(l.Level()), JSON: l.JSONMode(), Color: l.ColorMode(), Skip: l.Skip(),
			Parent: w.idOfEntry(l.Parent()), Root: w.idOfEntry(l.Root()),
		})
	}
	w.emitV(scen.Event{T: task, K: "snap", Op: i + 1, Ph: phase}, snaps)
}

func (w *W) applyWorldParams() {
	sc := w.sc
	for _, f := range sc.World.NoFlags {
		slog.RemoveFlags(flagByName(f))
	}
	for _, f := range sc.World.Flags {
		slog.AddFlags(flagByName(f))
	}
	if sc.World.Clock.Local != "" {
		if loc := zoneOf(sc.World.Clock.Local); loc != nil {
			time.Local = loc
		}
	}
	// default logger is id 0
	w.loggers[0] = slog.Default()
	if e := entryOf(slog.Default()); e != nil {
		w.entryID[e] = 0
	}
}

func flagByName(n string) slog.Flags {
	switch n {
	case "Ldate":
		return slog.Ldate
	case "Ltime":
		return slog.Ltime
	case "Lmicroseconds":
		return slog.Lmicroseconds
	case "LlocalTime":
		return slog.LlocalTime
	case "Lattrs":
		return slog.Lattrs
	case "LattrsR":
		return slog.LattrsR
	case "Llineno":
		return slog.Llineno
	case "Lcaller":
		return slog.Lcaller
	case "Lcallerpackagename":
		return slog.Lcallerpackagename
	case "Lprivacypath":
		return slog.Lprivacypath
	case "Lprivacypathregexp":
		return slog.Lprivacypathregexp
	case "LsmartJSONMode":
		return slog.LsmartJSONMode
	case "LnoInterrupt":
		return slog.LnoInterrupt
	case "Linterruptalways":
		return slog.Linterruptalways
	}
	return 0
}
