package world

import (
	"errors"
	"fmt"
	"io"
	"os"
	"path/filepath"

	"github.com/hedzr/logg/slog"

	"verif/internal/scen"
)

// simWriter is a simulated destination: it records every attempt as an event
// and applies the fault attached to that attempt.
type simWriter struct {
	w        *W
	id       int
	kind     string
	attempts int
	file     *os.File
	closed   int
	// quiet-mode counters (race world)
	qWrites int
}

type errInjected struct {
	w, attempt int
}

func (e *errInjected) Error() string { return fmt.Sprintf("injected failure w%d#%d", e.w, e.attempt) }

func (sw *simWriter) write(p []byte) (n int, err error) {
	w := sw.w
	if w.quiet {
		w.yield(ySiteWrite)
		sw.countQuiet()
		w.yield(ySiteWriteExit)
		return len(p), nil
	}
	w.yield(ySiteWrite)
	task := w.task()
	attempt := sw.attempts
	sw.attempts++
	n = len(p)
	fk := ""
	global := w.globalAttempt
	w.globalAttempt++
	f, ok := w.faults[[2]int{sw.id, attempt}]
	if !ok {
		f, ok = w.faults[[2]int{-1, global}] // W = -1 addresses the k-th Write attempt of the whole episode
	}
	if ok {
		fk = f.Kind
		switch f.Kind {
		case "err":
			n, err = 0, &errInjected{sw.id, attempt}
		case "partial":
			n = f.N
			if n >= len(p) {
				n = len(p) / 2
			}
			if n < 0 {
				n = 0
			}
			err = &errInjected{sw.id, attempt}
		case "short":
			n = f.N
			if n >= len(p) {
				n = len(p) / 2
			}
			if n < 0 {
				n = 0
			}
		case "stallerr":
			// a destination that takes its time and then fails: other tasks run while this Write is in flight
			for i := 0; i < 2+f.N%3; i++ {
				w.yield(ySiteStall)
			}
			n, err = 0, &errInjected{sw.id, attempt}
		case "stall":
			k := f.N
			if k <= 0 {
				k = 1
			}
			for i := 0; i < k; i++ {
				w.yield(ySiteStall)
			}
		case "hang":
			// a destination that never comes back (a dead NFS mount, a full pipe nobody reads): the calling
			// task stays inside this Write for the rest of the episode
			w.fired[fk]++
			if !w.quiet {
				w.emit(scen.Event{T: task, K: "hang", Op: w.curOp[task], Ph: w.curPh[task], W: sw.id, A: attempt})
			}
			if w.inTasks() {
				w.sch.hang() // does not return
			}
			fk = ""
		default:
			fk = ""
		}
		if fk != "" {
			w.fired[fk]++
		}
	}
	cp := make([]byte, len(p))
	copy(cp, p)
	if sw.file != nil && err == nil {
		_, _ = sw.file.Write(p[:n])
	}
	e := scen.Event{T: task, K: "write", W: sw.id, P: cp, N: n, F: fk, A: attempt + 1, D: w.logDepth[task]}
	if task < len(w.curOp) {
		e.Op = w.curOp[task]
		e.Ph = w.curPh[task]
	}
	if err != nil {
		e.Err = err.Error()
	}
	w.emit(e)
	if fk == "stall" {
		for i := 0; i < 2; i++ {
			w.yield(ySiteStall)
		}
	}
	w.yield(ySiteWriteExit)
	return n, err
}

// countQuiet is shared by all tasks; in the race world the harness must not
// create (or appear to lack) happens-before edges of its own.
//
//go:norace
func (sw *simWriter) countQuiet() { sw.qWrites++ }

func (sw *simWriter) close() error {
	sw.closed++
	if !sw.w.quiet {
		sw.w.emit(scen.Event{T: sw.w.task(), K: "close", W: sw.id})
	}
	return nil
}

func (sw *simWriter) setLevel(l slog.Level) {
	w := sw.w
	w.yield(ySiteSetLevel)
	if w.quiet {
		return
	}
	task := w.task()
	e := scen.Event{T: task, K: "setlevel", W: sw.id, L: int(l)}
	if task < len(w.curOp) {
		e.Op = w.curOp[task]
		e.Ph = w.curPh[task]
	}
	w.emit(e)
}

// Four Go types so that logg's type switches see exactly the method set of the kind.
type plainW struct{ sw *simWriter }

func (x *plainW) Write(p []byte) (int, error) { return x.sw.write(p) }

type closerW struct{ sw *simWriter }

func (x *closerW) Write(p []byte) (int, error) { return x.sw.write(p) }
func (x *closerW) Close() error                { return x.sw.close() }

type levelW struct{ sw *simWriter }

func (x *levelW) Write(p []byte) (int, error) { return x.sw.write(p) }
func (x *levelW) Close() error                { return x.sw.close() }
func (x *levelW) SetLevel(l slog.Level)       { x.sw.setLevel(l) }

// syncW is a file-backed destination with a Sync method (what a library that flushes before it terminates looks
// for); with fail set, Sync reports an I/O error after it has synced. No event is emitted for it: what counts for
// the oracles is what was written, and whether the process then did what it had to do.
type syncW struct {
	sw   *simWriter
	fail bool
}

func (x *syncW) Write(p []byte) (int, error) { return x.sw.write(p) }
func (x *syncW) Close() error                { return x.sw.close() }
func (x *syncW) Sync() error {
	x.sw.w.yield(ySiteWriteExit)
	if x.sw.file != nil {
		_ = x.sw.file.Sync()
	}
	if x.fail {
		x.sw.w.fired["syncerr"]++
		return errSync
	}
	x.sw.w.fired["sync"]++
	return nil
}

var errSync = errors.New("injected sync failure: input/output error")

type levelPlainW struct{ sw *simWriter }

func (x *levelPlainW) Write(p []byte) (int, error) { return x.sw.write(p) }
func (x *levelPlainW) SetLevel(l slog.Level)       { x.sw.setLevel(l) }

// writer returns (creating on first use) the io.Writer for id with the given kind.
func (w *W) writer(id int, kind string) io.Writer {
	if kind == "fan" {
		// one caller-owned fan-out list (slog.LWs) of two simulated destinations id*10+1 and id*10+2,
		// with spare capacity, handed out as the same value every time it is asked for
		if f, ok := w.ifaces[id]; ok {
			return f
		}
		l := make(slog.LWs, 0, 4)
		for k := 1; k <= 2; k++ {
			if m, ok := w.writer(id*10+k, "logwriter").(slog.LogWriter); ok {
				l = append(l, m)
			}
		}
		w.ifaces[id] = l
		return l
	}
	sw, ok := w.writers[id]
	if !ok {
		if kind == "" {
			kind = "plain"
		}
		sw = &simWriter{w: w, id: id, kind: kind}
		if kind == "file" || kind == "filesync" || kind == "filesyncfail" {
			dir := w.sc.World.FileDir
			if dir == "" {
				dir = os.TempDir()
			}
			f, err := os.OpenFile(filepath.Join(dir, fmt.Sprintf("w%d.log", id)), os.O_CREATE|os.O_WRONLY|os.O_APPEND, 0o644)
			if err == nil {
				sw.file = f
			}
		}
		w.writers[id] = sw
		w.ifaces[id] = makeIface(sw)
	}
	return w.ifaces[id]
}

func makeIface(sw *simWriter) io.Writer {
	switch sw.kind {
	case "libfile":
		// the library's own file destination (slog.NewFileWriter) on a regular file: no simulated events,
		// the content is read after the episode (lf<id>.log in the episode's file directory)
		dir := sw.w.sc.World.FileDir
		if dir == "" {
			dir = os.TempDir()
		}
		return slog.NewFileWriter(filepath.Join(dir, fmt.Sprintf("lf%d.log", sw.id)))
	case "wrapped": // a plain writer given through the public NewLogWriter constructor
		return slog.NewLogWriter(&plainW{sw})
	case "logwriter", "file":
		return &closerW{sw}
	case "filesync":
		return &syncW{sw, false}
	case "filesyncfail":
		return &syncW{sw, true}
	case "levelsettable":
		return &levelW{sw}
	case "levelplain":
		return &levelPlainW{sw}
	}
	return &plainW{sw}
}
