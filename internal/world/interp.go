package world

import (
	"context"
	"encoding/json"
	"fmt"
	"io"
	"log"
	logslog "log/slog"
	"runtime"
	"strings"
	"time"

	"github.com/hedzr/is"
	"github.com/hedzr/logg/slog"

	"verif/internal/scen"
)

func (w *W) ret(task int, v any) {
	if w.quiet {
		return
	}
	e := scen.Event{T: task, K: "ret", Op: w.curOp[task], Ph: w.curPh[task]}
	w.emitV(e, v)
}

type retLogger struct {
	ID      int  `json:"id"`
	New     bool `json:"new"`
	IsRecv  bool `json:"is_recv"`
	Nil     bool `json:"nil,omitempty"`
	Entries int  `json:"n,omitempty"`
}

// opt converts an option description into a slog.Opt (nil when unknown).
func (w *W) opt(o *scen.Op) any {
	switch o.Kind {
	case "level":
		return slog.WithLevel(slog.Level(o.Lvl))
	case "json":
		return slog.WithJSONMode(o.B...)
	case "color":
		return slog.WithColorMode(o.B...)
	case "utc":
		return slog.WithUTCMode(o.B...)
	case "timefmt":
		return slog.WithTimeFormat(o.S...)
	case "attrs":
		return slog.WithAttrs(w.attrs(o.Args)...)
	case "attrs1":
		return slog.WithAttrs1(w.attrs1(o))
	case "args":
		return slog.With(w.args(o.Args)...)
	case "writer":
		return slog.WithWriter(w.wr(o))
	case "add_writer":
		return slog.AddWriter(w.wr(o))
	case "errwriter":
		return slog.WithErrorWriter(w.wr(o))
	case "add_errwriter":
		return slog.AddErrorWriter(w.wr(o))
	case "reset_writers":
		return slog.ResetWriters()
	case "add_level_writer":
		return slog.AddLevelWriter(slog.Level(o.Lvl), w.wr(o))
	case "remove_level_writer":
		return slog.RemoveLevelWriter(slog.Level(o.Lvl), w.wr(o))
	case "reset_level_writer":
		return slog.ResetLevelWriter(slog.Level(o.Lvl))
	case "reset_level_writers":
		return slog.ResetLevelWriters()
	}
	return nil
}

// attrs1 returns the Attrs value of an attrs1 setting. With J > 0 the SAME caller-owned
// slice (built once by NewAttrs, so with spare capacity) is handed to every op that names it.
func (w *W) attrs1(o *scen.Op) slog.Attrs {
	if o.J > 0 {
		if v, ok := w.shared[-int(o.J)]; ok {
			return v.(slog.Attrs)
		}
		// as key, value pairs: the list NewAttrs builds then has spare capacity (len 3n, cap >= 4n)
		var list []any
		for _, a := range w.attrs(o.Args) {
			list = append(list, a.Key(), a.Value())
		}
		v := slog.NewAttrs(list...)
		w.shared[-int(o.J)] = v
		return v
	}
	return slog.Attrs(w.attrs(o.Args))
}

func (w *W) wr(o *scen.Op) io.Writer {
	if o.Nil {
		return nil
	}
	return w.writer(o.W, o.WK)
}

func (w *W) newArgs(op *scen.Op) []any {
	var args []any
	if op.Named || op.Name != "" {
		args = append(args, op.Name)
	}
	var opts []any
	for i := range op.Opts {
		if o := w.opt(&op.Opts[i]); o != nil {
			opts = append(opts, o)
		}
	}
	free := w.args(op.Args)
	switch op.Kind {
	case "args_first": // New(name, attrs..., opts...)
		args = append(append(args, free...), opts...)
	case "interleaved": // options between the attribute arguments (never splitting a key from its value)
		k := 0
		for i := 0; i < len(free); i++ {
			args = append(args, free[i])
			if _, isKey := free[i].(string); isKey && i+1 < len(free) {
				i++
				args = append(args, free[i])
			}
			if k < len(opts) {
				args = append(args, opts[k])
				k++
			}
		}
		args = append(args, opts[k:]...)
	default:
		args = append(append(args, opts...), free...)
	}
	return args
}

func (w *W) ctxKeys(ks []scen.CtxKey) []any {
	out := make([]any, 0, len(ks))
	for _, k := range ks {
		out = append(out, w.ctxKey(k))
	}
	return out
}

func (w *W) retLogger(task int, op *scen.Op, recv slog.Logger, res *slog.Entry) {
	if res == nil {
		w.ret(task, retLogger{ID: -1, Nil: true})
		return
	}
	id, isNew := w.register(op.R, res)
	w.ret(task, retLogger{ID: id, New: isNew, IsRecv: recv != nil && entryOf(recv) == res})
}

func (w *W) exec(task int, op *scen.Op) {
	switch op.Op {
	case "new_root":
		l := slog.New(w.newArgs(op)...)
		id, isNew := w.register(op.R, l)
		w.ret(task, retLogger{ID: id, New: isNew})
		return
	case "log":
		w.execLog(task, op)
		return
	case "mutate_group":
		// a caller-owned group value (Args[0], shared by its ref) is changed between calls: members are added
		// (Add, or SetValue with one Attr) or the member list is replaced (SetValue with Attrs)
		if len(op.Args) < 1 {
			return
		}
		v := w.value(&op.Args[0])
		more := w.attrs(op.Args[1:])
		switch op.Kind {
		case "add":
			if g, ok := v.(interface{ Add(as ...slog.Attr) }); ok {
				g.Add(more...)
			}
		case "setattr":
			if g, ok := v.(interface{ SetValue(v any) }); ok {
				for _, a := range more {
					g.SetValue(a)
				}
			}
		case "setattrs":
			if g, ok := v.(interface{ SetValue(v any) }); ok {
				g.SetValue(slog.Attrs(more))
			}
		}
		return
	case "add_flags":
		for _, f := range op.S {
			slog.AddFlags(flagByName(f))
		}
		return
	case "remove_flags":
		for _, f := range op.S {
			slog.RemoveFlags(flagByName(f))
		}
		return
	case "set_flags":
		var fl slog.Flags
		for _, f := range op.S {
			fl |= flagByName(f)
		}
		slog.SetFlags(fl)
		return
	case "reset_flags":
		slog.ResetFlags()
		return
	case "save_flags": // SaveFlagsAndMod(adding, removing...): names with a leading '-' are removed
		var add slog.Flags
		var rem []slog.Flags
		for _, f := range op.S {
			if strings.HasPrefix(f, "-") {
				rem = append(rem, flagByName(f[1:]))
			} else {
				add |= flagByName(f)
			}
		}
		w.flagRestores = append(w.flagRestores, slog.SaveFlagsAndMod(add, rem...))
		return
	case "restore_flags":
		if n := len(w.flagRestores); n > 0 {
			w.flagRestores[n-1]()
			w.flagRestores = w.flagRestores[:n-1]
		}
		return
	case "pkg_set_level":
		slog.SetLevel(slog.Level(op.Lvl))
		return
	case "pkg_reset_level":
		slog.ResetLevel()
		return
	case "pkg_save_level":
		w.restores = append(w.restores, slog.SaveLevelAndSet(slog.Level(op.Lvl)))
		return
	case "pkg_restore_level":
		if n := len(w.restores); n > 0 {
			w.restores[n-1]()
			w.restores = w.restores[:n-1]
		}
		return
	case "set_default":
		if l := w.logger(op.L); l != nil {
			slog.SetDefault(l)
		}
		return
	case "pkg_get_level":
		w.ret(task, map[string]int{"level": int(slog.GetLevel())})
		return
	case "set_debug_mode":
		is.SetDebugMode(len(op.B) > 0 && op.B[0])
		return
	case "get_debug_mode":
		w.ret(task, map[string]bool{"debug": is.DebugMode()})
		return
	case "register_level":
		w.execRegister(task, op)
		return
	case "level_query":
		w.execLevelQuery(task, op)
		return
	case "set_level_width":
		slog.SetLevelOutputWidth(int(op.I))
		return
	case "set_msg_width":
		slog.SetMessageMinimalWidth(int(op.I))
		return
	case "clock_jump":
		if w.clock != nil {
			w.clock.jump(time.Duration(op.I)*time.Second + time.Duration(op.J))
		}
		return
	case "add_path":
		slog.AddKnownPathMapping(expandSrc(op.Name), op.Msg)
		return
	case "remove_path":
		slog.RemoveKnownPathMapping(expandSrc(op.Name))
		return
	case "reset_paths":
		slog.ResetKnownPathMapping()
		return
	case "add_path_re":
		slog.AddKnownPathRegexpMapping(op.Name, op.Msg)
		return
	case "remove_path_re":
		slog.RemoveKnownPathRegexpMapping(op.Name)
		return
	case "reset_path_res":
		slog.ResetKnownPathRegexpMapping()
		return
	case "safety":
		q := expandSrc(op.Name)
		w.ret(task, map[string]any{"q": q, "r": slog.Safety(q)})
		return
	case "safety_files":
		qs := make([]string, len(op.S))
		for i, q := range op.S {
			qs[i] = expandSrc(q)
		}
		w.ret(task, map[string]any{"q": qs, "r": slog.SafetyFiles(qs)})
		return
	case "pkg_with_skip":
		res := slog.WithSkip(int(op.I))
		w.retLogger(task, op, slog.Default(), res)
		return
	case "pkg_set_skip":
		slog.SetSkip(int(op.I))
		return
	case "handler_with_attrs", "handler_with_group", "handler_enabled", "handler_handle", "slog_log", "bridge_print":
		w.execAdapter(task, op)
		return
	case "nop":
		return
	case "share":
		// build an object once, before the tasks start; tasks refer to it by Ref and only read the table
		for i := range op.Args {
			a := op.Args[i]
			ref := a.Ref
			a.Ref = 0
			if ref > 0 {
				w.shared[ref] = w.value(&a)
			}
		}
		return
	case "snap":
		w.snapshot(task, w.curPh[task], w.curOp[task]-1)
		return
	}

	l := w.logger(op.L)
	if l == nil {
		if !w.quiet {
			w.emit(scen.Event{T: task, K: "skip", Op: w.curOp[task], Ph: w.curPh[task], S: "no logger"})
		}
		return
	}
	switch op.Op {
	case "new_child":
		res := l.New(w.newArgs(op)...)
		w.retLogger(task, op, l, res)
	case "with":
		var res *slog.Entry
		switch op.Kind {
		case "level":
			res = l.WithLevel(slog.Level(op.Lvl))
		case "json":
			res = l.WithJSONMode(op.B...)
		case "color":
			res = l.WithColorMode(op.B...)
		case "utc":
			res = l.WithUTCMode(op.B...)
		case "timefmt":
			res = l.WithTimeFormat(op.S...)
		case "attrs":
			res = l.WithAttrs(w.attrs(op.Args)...)
		case "attrs1":
			res = l.WithAttrs1(w.attrs1(op))
		case "args":
			res = l.With(w.args(op.Args)...)
		case "skip":
			if op.Name == "pkg" && op.L == 0 {
				res = slog.WithSkip(int(op.I)) // package-level form, acts on the default logger
			} else {
				res = l.WithSkip(int(op.I))
			}
		case "ctxkeys":
			res = l.WithContextKeys(w.ctxKeys(op.Keys)...)
		case "writer":
			res = l.WithWriter(w.wr(op))
		case "errwriter":
			res = l.WithErrorWriter(w.wr(op))
		case "valuestringer":
			res = l.WithValueStringer(nil)
		default:
			return
		}
		w.retLogger(task, op, l, res)
	case "set":
		var res *slog.Entry
		hasRes := true
		switch op.Kind {
		case "level":
			res = l.SetLevel(slog.Level(op.Lvl))
		case "json":
			res = l.SetJSONMode(op.B...)
		case "color":
			res = l.SetColorMode(op.B...)
		case "utc":
			res = l.SetUTCMode(op.B...)
		case "timefmt":
			res = l.SetTimeFormat(op.S...)
		case "attrs":
			res = l.SetAttrs(w.attrs(op.Args)...)
		case "attrs1":
			res = l.SetAttrs1(w.attrs1(op))
		case "args":
			res = l.Set(w.args(op.Args)...)
		case "skip":
			if op.Name == "pkg" && op.L == 0 {
				slog.SetSkip(int(op.I))
			} else {
				l.SetSkip(int(op.I))
			}
			hasRes = false
		case "ctxkeys":
			res = l.SetContextKeys(w.ctxKeys(op.Keys)...)
		case "reset_ctxkeys":
			if x, ok := l.(interface{ ResetContextKeys(...any) *slog.Entry }); ok {
				res = x.ResetContextKeys()
			} else {
				hasRes = false
			}
		case "writer":
			res = l.SetWriter(w.wr(op))
		case "add_writer":
			res = l.AddWriter(w.wr(op))
		case "remove_writer":
			res = l.RemoveWriter(w.wr(op))
		case "errwriter":
			res = l.SetErrorWriter(w.wr(op))
		case "add_errwriter":
			res = l.AddErrorWriter(w.wr(op))
		case "remove_errwriter":
			res = l.RemoveErrorWriter(w.wr(op))
		case "reset_writers":
			res = l.ResetWriters()
		case "add_level_writer":
			res = l.AddLevelWriter(slog.Level(op.Lvl), w.wr(op))
		case "remove_level_writer":
			res = l.RemoveLevelWriter(slog.Level(op.Lvl), w.wr(op))
		case "reset_level_writer":
			res = l.ResetLevelWriter(slog.Level(op.Lvl))
		case "reset_level_writers":
			res = l.ResetLevelWriters()
		case "valuestringer":
			res = l.SetValueStringer(nil)
		default:
			return
		}
		if hasRes {
			w.ret(task, retLogger{ID: w.idOfEntry(res), IsRecv: res == entryOf(l), Nil: res == nil})
		}
	case "parent":
		w.ret(task, map[string]int{"id": w.idOfEntry(l.Parent())})
	case "root":
		w.ret(task, map[string]int{"id": w.idOfEntry(l.Root())})
	case "name":
		w.ret(task, map[string]string{"name": l.Name()})
	case "sublogger":
		name := op.Name
		if name == "" && op.R > 0 {
			// by the name another logger actually carries
			if t := w.logger(op.R); t != nil {
				name = t.Name()
			}
		}
		res := l.Sublogger(name)
		nm := ""
		if res != nil {
			nm = res.Name()
		}
		w.ret(task, map[string]any{"id": w.idOfEntry(res), "name": nm, "asked": name})
	case "each":
		type visit struct {
			ID    int `json:"id"`
			Depth int `json:"depth"`
		}
		var vs []visit
		l.Each(func(e *slog.Entry, depth int) { vs = append(vs, visit{w.idOfEntry(e), depth}) })
		w.ret(task, vs)
	case "get_writer_by":
		// write a payload straight through the writer the logger looks up for a severity
		lw := l.GetWriterBy(slog.Level(op.Lvl))
		if lw != nil {
			_, _ = lw.Write([]byte(op.Msg + "\n"))
		}
	case "enabled":
		w.ret(task, map[string]bool{
			"enabled":     l.Enabled(slog.Level(op.Lvl)),
			"enabled_ctx": l.EnabledContext(context.Background(), slog.Level(op.Lvl)),
		})
	case "write_thru":
		w.logDepth[task]++
		if x, ok := l.(slog.LogSlogAware); ok {
			var pc uintptr
			if op.Kind == "pc" {
				pc = fixedPC()
			}
			x.WriteThru(w.buildCtx(op.Ctx), slog.Level(op.Lvl), w.timeOf(op.T), pc, op.Msg, slog.Attrs(w.attrs(op.Args)))
		}
		w.logDepth[task]--
	case "slog_handler":
		w.execNewHandler(task, op, l)
	case "bridge_new":
		bl := slog.NewLogLogger(l, slog.Level(op.Lvl))
		if op.Kind == "flags" {
			bl.SetFlags(int(op.I))
			bl.SetPrefix(op.Name)
		}
		w.bridges[op.R] = bl
	}
}

// execLog dispatches a log call to one of the public entry points.
func (w *W) execLog(task int, op *scen.Op) {
	l := w.logger(op.L)
	isPkg := len(op.Entry) > 4 && op.Entry[:4] == "pkg."
	if l == nil && !isPkg {
		if !w.quiet {
			w.emit(scen.Event{T: task, K: "skip", Op: w.curOp[task], Ph: w.curPh[task], S: "no logger"})
		}
		return
	}
	msg := op.Msg
	if len(op.X) > 0 {
		msg = string(op.X)
	}
	if op.J > 0 {
		// a long message: J bytes of padding after the text (kept out of the scenario document)
		msg += " " + strings.Repeat("0123456789abcdef", int(op.J)/16+1)[:op.J]
	}
	args := w.args(op.Args)
	var ctx context.Context
	ctx = w.buildCtx(op.Ctx)
	w.logDepth[task]++
	defer func() { w.logDepth[task]-- }()
	lvl := slog.Level(op.Lvl)
	switch op.Entry {
	case "Panic":
		l.Panic(msg, args...)
	case "Fatal":
		l.Fatal(msg, args...)
	case "Error":
		l.Error(msg, args...)
	case "Warn":
		l.Warn(msg, args...)
	case "Info":
		l.Info(msg, args...)
	case "Debug":
		l.Debug(msg, args...)
	case "Trace":
		l.Trace(msg, args...)
	case "Print":
		l.Print(msg, args...)
	case "OK":
		l.OK(msg, args...)
	case "Success":
		l.Success(msg, args...)
	case "Fail":
		l.Fail(msg, args...)
	case "Verbose":
		l.Verbose(msg, args...)
	case "Println":
		if op.Kind == "rawargs" {
			l.Println(args...)
		} else {
			l.Println(append([]any{msg}, args...)...)
		}
	case "PanicContext":
		l.PanicContext(ctx, msg, args...)
	case "FatalContext":
		l.FatalContext(ctx, msg, args...)
	case "ErrorContext":
		l.ErrorContext(ctx, msg, args...)
	case "WarnContext":
		l.WarnContext(ctx, msg, args...)
	case "InfoContext":
		l.InfoContext(ctx, msg, args...)
	case "DebugContext":
		l.DebugContext(ctx, msg, args...)
	case "TraceContext":
		l.TraceContext(ctx, msg, args...)
	case "PrintContext":
		l.PrintContext(ctx, msg, args...)
	case "PrintlnContext":
		l.PrintlnContext(ctx, msg, args...)
	case "OKContext":
		l.OKContext(ctx, msg, args...)
	case "SuccessContext":
		l.SuccessContext(ctx, msg, args...)
	case "FailContext":
		l.FailContext(ctx, msg, args...)
	case "VerboseContext":
		l.VerboseContext(ctx, msg, args...)
	case "LogAttrs":
		l.LogAttrs(ctx, lvl, msg, args...)
	case "Logit":
		l.Logit(ctx, lvl, msg, args...)
	case "Log":
		l.Log(ctx, logslog.Level(op.Lvl), msg, args...)
	case "Infof":
		_ = l.Infof("%s", msg)
	case "Warnf":
		_ = l.Warnf("%s", msg)
	case "Errorf":
		_ = l.Errorf("%s", msg)
	case "pkg.Panic":
		slog.Panic(msg, args...)
	case "pkg.Fatal":
		slog.Fatal(msg, args...)
	case "pkg.Error":
		slog.Error(msg, args...)
	case "pkg.Warn":
		slog.Warn(msg, args...)
	case "pkg.Info":
		slog.Info(msg, args...)
	case "pkg.Debug":
		slog.Debug(msg, args...)
	case "pkg.Trace":
		slog.Trace(msg, args...)
	case "pkg.Print":
		slog.Print(msg, args...)
	case "pkg.OK":
		slog.OK(msg, args...)
	case "pkg.Success":
		slog.Success(msg, args...)
	case "pkg.Fail":
		slog.Fail(msg, args...)
	case "pkg.Verbose":
		slog.Verbose(msg, args...)
	case "pkg.Println":
		if op.Kind == "rawargs" {
			slog.Println(args...)
		} else {
			slog.Println(append([]any{msg}, args...)...)
		}
	case "pkg.PanicContext":
		slog.PanicContext(ctx, msg, args...)
	case "pkg.FatalContext":
		slog.FatalContext(ctx, msg, args...)
	case "pkg.ErrorContext":
		slog.ErrorContext(ctx, msg, args...)
	case "pkg.WarnContext":
		slog.WarnContext(ctx, msg, args...)
	case "pkg.InfoContext":
		slog.InfoContext(ctx, msg, args...)
	case "pkg.DebugContext":
		slog.DebugContext(ctx, msg, args...)
	case "pkg.TraceContext":
		slog.TraceContext(ctx, msg, args...)
	case "pkg.PrintContext":
		slog.PrintContext(ctx, msg, args...)
	case "pkg.PrintlnContext":
		slog.PrintlnContext(ctx, msg, args...)
	case "pkg.OKContext":
		slog.OKContext(ctx, msg, args...)
	case "pkg.SuccessContext":
		slog.SuccessContext(ctx, msg, args...)
	case "pkg.FailContext":
		slog.FailContext(ctx, msg, args...)
	case "pkg.VerboseContext":
		slog.VerboseContext(ctx, msg, args...)
	}
}

// ---------------------------------------------------------------- levels (C17)

func (w *W) execRegister(task int, op *scen.Op) {
	var opts []slog.RegOpt
	for i := range op.Opts {
		o := &op.Opts[i]
		switch o.Kind {
		case "tags":
			var tags [slog.MaxLengthShortTag]string
			for k := 0; k < len(o.S) && k < len(tags); k++ {
				tags[k] = o.S[k]
			}
			opts = append(opts, slog.RegWithShortTags(tags))
		case "treat_as":
			opts = append(opts, slog.RegWithTreatedAsLevel(slog.Level(o.Lvl)))
		case "errdev":
			opts = append(opts, slog.RegWithPrintToErrorDevice(o.B...))
		case "color":
			opts = append(opts, slog.RegWithColor(colorOf(o.I), bgOf(o.J)...))
		}
	}
	err := slog.RegisterLevel(slog.Level(op.Lvl), op.Name, opts...)
	r := map[string]any{"ok": err == nil}
	if err != nil {
		r["err"] = err.Error()
	}
	w.ret(task, r)
}

type levelView struct {
	Level     int      `json:"level"`
	String    string   `json:"string"`
	ParseOK   bool     `json:"parse_ok"`
	Parsed    int      `json:"parsed"`
	TextOK    bool     `json:"text_ok"`
	Text      string   `json:"text"`
	UnTextOK  bool     `json:"untext_ok"`
	UnText    int      `json:"untext"`
	JSONOK    bool     `json:"json_ok"`
	JSON      string   `json:"json"`
	UnJSONOK  bool     `json:"unjson_ok"`
	UnJSON    int      `json:"unjson"`
	EncOK     bool     `json:"enc_ok"` // through encoding/json
	Enc       string   `json:"enc"`
	UnEncOK   bool     `json:"unenc_ok"`
	UnEnc     int      `json:"unenc"`
	ShortTags []string `json:"short_tags"` // index 0 unused
	TagPanic  string   `json:"tag_panic,omitempty"`
}

func (w *W) viewLevel(lv slog.Level) (v levelView) {
	v.Level = int(lv)
	v.String = lv.String()
	if p, err := slog.ParseLevel(v.String); err == nil {
		v.ParseOK, v.Parsed = true, int(p)
	}
	if b, err := lv.MarshalText(); err == nil {
		v.TextOK, v.Text = true, string(b)
		var u slog.Level = -12345
		if err := u.UnmarshalText(b); err == nil {
			v.UnTextOK, v.UnText = true, int(u)
		}
	}
	if b, err := lv.MarshalJSON(); err == nil {
		v.JSONOK, v.JSON = true, string(b)
		var u slog.Level = -12345
		if err := u.UnmarshalJSON(b); err == nil {
			v.UnJSONOK, v.UnJSON = true, int(u)
		}
	}
	if b, err := json.Marshal(struct{ L slog.Level }{lv}); err == nil {
		v.EncOK, v.Enc = true, string(b)
		var u struct{ L slog.Level }
		u.L = -12345
		if err := json.Unmarshal(b, &u); err == nil {
			v.UnEncOK, v.UnEnc = true, int(u.L)
		}
	}
	v.ShortTags = make([]string, 6)
	func() {
		defer func() {
			if r := recover(); r != nil {
				v.TagPanic = fmt.Sprint(r)
			}
		}()
		for n := 1; n <= 5; n++ {
			v.ShortTags[n] = lv.ShortTag(n)
		}
	}()
	return
}

func (w *W) execLevelQuery(task int, op *scen.Op) {
	type out struct {
		All    []int          `json:"all"`
		Views  []levelView    `json:"views"`
		Parses map[string]int `json:"parses,omitempty"`
	}
	var o out
	for _, l := range slog.AllLevels() {
		o.All = append(o.All, int(l))
	}
	seen := map[int]bool{}
	for _, l := range o.All {
		if !seen[l] {
			seen[l] = true
			o.Views = append(o.Views, w.viewLevel(slog.Level(l)))
		}
	}
	// extra levels asked for explicitly (e.g. the one just refused)
	if op.Kind == "extra" {
		if !seen[op.Lvl] {
			o.Views = append(o.Views, w.viewLevel(slog.Level(op.Lvl)))
		}
	}
	if len(op.S) > 0 {
		o.Parses = map[string]int{}
		for _, s := range op.S {
			if p, err := slog.ParseLevel(s); err == nil {
				o.Parses[s] = int(p)
			} else {
				o.Parses[s] = -99999
			}
		}
	}
	w.ret(task, o)
}

// ---------------------------------------------------------------- adapters (C15)

func (w *W) execNewHandler(task int, op *scen.Op, l slog.Logger) {
	var cfg *slog.HandlerOptions
	if !op.Nil {
		cfg = &slog.HandlerOptions{}
		for _, s := range op.S {
			switch s {
			case "nocolor":
				cfg.NoColor = true
			case "nosource":
				cfg.NoSource = true
			case "json":
				cfg.JSON = true
			}
		}
		cfg.Level = slog.Level(op.Lvl)
	}
	h := slog.NewSlogHandler(l, cfg)
	w.handlers[op.R] = h
}

func (w *W) stdAttr(a *scen.Arg) logslog.Attr {
	switch a.K {
	case "group":
		var items []any
		for i := range a.Items {
			items = append(items, w.stdAttr(&a.Items[i]))
		}
		return logslog.Group(a.Key, items...)
	case "valuer":
		inner := scen.Arg{}
		if len(a.Items) > 0 {
			inner = a.Items[0]
		}
		inner.Key = a.Key
		return logslog.Any(a.Key, lazyValuer{w.stdAttr(&inner).Value})
	case "attr":
		if len(a.Items) > 0 {
			b := a.Items[0]
			b.Key = a.Key
			return w.stdAttr(&b)
		}
		return logslog.Any(a.Key, nil)
	case "s":
		return logslog.String(a.Key, a.S)
	case "i", "i64":
		return logslog.Int64(a.Key, a.I)
	case "u64":
		return logslog.Uint64(a.Key, uint64(a.I))
	case "f":
		return logslog.Float64(a.Key, a.F)
	case "b":
		return logslog.Bool(a.Key, a.B)
	case "dur":
		return logslog.Duration(a.Key, time.Duration(a.I))
	case "time":
		if a.S != "" {
			// I = Unix nanoseconds, S = zone
			return logslog.Time(a.Key, time.Unix(0, a.I).In(zoneOf(a.S)))
		}
		return logslog.Time(a.Key, time.Unix(a.I, 0).UTC())
	}
	return logslog.Any(a.Key, w.value(a))
}

type lazyValuer struct{ v logslog.Value }

func (l lazyValuer) LogValue() logslog.Value { return l.v }

func (w *W) execAdapter(task int, op *scen.Op) {
	switch op.Op {
	case "handler_with_attrs":
		h := w.handlers[op.L]
		if h == nil {
			return
		}
		var as []logslog.Attr
		for i := range op.Args {
			as = append(as, w.stdAttr(&op.Args[i]))
		}
		w.handlers[op.R] = h.WithAttrs(as)
	case "handler_with_group":
		h := w.handlers[op.L]
		if h == nil {
			return
		}
		w.handlers[op.R] = h.WithGroup(op.Name)
	case "handler_enabled":
		h := w.handlers[op.L]
		if h == nil {
			return
		}
		w.ret(task, map[string]bool{"enabled": h.Enabled(context.Background(), logslog.Level(op.Lvl))})
	case "handler_handle":
		h := w.handlers[op.L]
		if h == nil {
			return
		}
		rec := logslog.NewRecord(w.timeOf(op.T), logslog.Level(op.Lvl), rawMsg(op), 0)
		for i := range op.Args {
			rec.AddAttrs(w.stdAttr(&op.Args[i]))
		}
		w.logDepth[task]++
		en := h.Enabled(context.Background(), logslog.Level(op.Lvl))
		var err error
		if en || op.Kind == "force" {
			err = h.Handle(context.Background(), rec)
		}
		w.logDepth[task]--
		r := map[string]any{"enabled": en}
		if err != nil {
			r["err"] = err.Error()
		}
		w.ret(task, r)
	case "slog_log":
		h := w.handlers[op.L]
		if h == nil {
			return
		}
		lg := logslog.New(simTimed{h, w})
		var as []any
		for i := range op.Args {
			as = append(as, w.stdAttr(&op.Args[i]))
		}
		w.logDepth[task]++
		lg.Log(context.Background(), logslog.Level(op.Lvl), rawMsg(op), as...)
		w.logDepth[task]--
	case "bridge_print":
		bl := w.bridges[op.L]
		if bl == nil {
			return
		}
		w.logDepth[task]++
		switch op.Kind {
		case "println":
			bl.Println(rawMsg(op))
		case "printf":
			bl.Printf("%s", rawMsg(op))
		case "write":
			n, err := bl.Writer().Write([]byte(rawMsg(op)))
			r := map[string]any{"n": n}
			if err != nil {
				r["err"] = err.Error()
			}
			w.ret(task, r)
		default:
			bl.Print(rawMsg(op))
		}
		w.logDepth[task]--
	}
}

var _ = log.Println

// fixedPC is the program counter of one fixed call site, so that records issued
// through WriteThru carry the same caller information every time.
//
//go:noinline
func fixedPC() uintptr {
	var pcs [1]uintptr
	runtime.Callers(1, pcs[:])
	return pcs[0]
}

// rawMsg: the message of an op; X carries messages that are not valid UTF-8 (a JSON document cannot)
func rawMsg(op *scen.Op) string {
	if len(op.X) > 0 {
		return string(op.X)
	}
	return op.Msg
}

// simTimed hands a log/slog.Logger's records on with the simulated clock's time: log/slog stamps them with
// time.Now() inside the standard library, where no overlay rule reaches - the one wall-clock read that got
// into event logs (found by the determinism self-test: every such episode diverged).
type simTimed struct {
	logslog.Handler
	w *W
}

func (s simTimed) Handle(ctx context.Context, r logslog.Record) error {
	if !raceEnabled && s.w.clock != nil {
		r.Time = s.w.clock.Now()
	}
	return s.Handler.Handle(ctx, r)
}

func (s simTimed) WithAttrs(as []logslog.Attr) logslog.Handler {
	return simTimed{s.Handler.WithAttrs(as), s.w}
}

func (s simTimed) WithGroup(name string) logslog.Handler {
	return simTimed{s.Handler.WithGroup(name), s.w}
}
