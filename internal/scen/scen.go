// Package scen holds the documents exchanged between the orchestrator and a
// world process: the scenario (what to run), the event log (what happened) and
// the choice tapes. It links nothing of hedzr/logg.
package scen

import (
	"encoding/json"
)

// Scenario is total: anything that parses runs (ids modulo, dangling references skipped).
type Scenario struct {
	Property string       `json:"property"`
	Engine   string       `json:"engine,omitempty"` // HIST | CONC | PROC | BUF
	Seed     uint64       `json:"seed"`
	World    World        `json:"world"`
	Setup    []Op         `json:"setup,omitempty"` // run by task 0 before the tasks start
	Tasks    []Task       `json:"tasks,omitempty"`
	Tail     []Op         `json:"tail,omitempty"` // run by task 0 after all tasks ended
	Faults   []Fault      `json:"faults,omitempty"`
	Tapes    *Tapes       `json:"tapes,omitempty"` // nil = draw from PRNG(seed); set = replay (reads past the end give 0)
	Sched    SchedCfg     `json:"sched,omitempty"`
	Buf      *BufScenario `json:"buf,omitempty"` // C19
	Note     string       `json:"note,omitempty"`
}

// World holds per-episode parameters of the world process.
type World struct {
	Mode     string   `json:"mode,omitempty"`  // "production" | "testing" (argv0 spoof)
	Home     string   `json:"home,omitempty"`  // $HOME of the world process
	Args     []string `json:"argv,omitempty"`  // further command-line arguments of the world process (it ignores them; libraries that inspect os.Args do not)
	Cwd      string   `json:"cwd,omitempty"`   // working directory of the world process
	Flags    []string `json:"flags,omitempty"` // added on top of the defaults
	NoFlags  []string `json:"noflags,omitempty"`
	Clock    Clock    `json:"clock,omitempty"`
	Stream   bool     `json:"stream,omitempty"`   // flush every event (needed when the process may die)
	Snap     bool     `json:"snap,omitempty"`     // isolation snapshot after every setup/tail op
	RealFD   bool     `json:"realfd,omitempty"`   // fd 1/2 are captured by the parent
	Race     bool     `json:"race,omitempty"`     // run in the race-transparent world
	Fine     bool     `json:"fine,omitempty"`     // run in the world built with rule R4 (a yield point at every function entry of package slog)
	Isolated bool     `json:"isolated,omitempty"` // one process for this episode
	FileDir  string   `json:"filedir,omitempty"`  // directory for fd-backed destinations
	RawPaths bool     `json:"rawpaths,omitempty"` // Home and Cwd are literal paths (cwd must exist), not mapped into the scratch file system
}

// Clock configures the simulated clock (the only clock logg reads).
type Clock struct {
	StartNs int64  `json:"start_ns,omitempty"` // unix nanoseconds
	StartS  int64  `json:"start_s,omitempty"`  // plus unix seconds (for far years)
	TickNs  int64  `json:"tick_ns,omitempty"`  // granularity (0 = 1ns)
	Zone    string `json:"zone,omitempty"`     // "", "UTC", "+08:00", "-03:30", or an IANA name
	MinStep int64  `json:"min_step,omitempty"` // every read advances the clock by at least this much
	MaxStep int64  `json:"max_step,omitempty"` // tape-chosen advance per read in [MinStep,MaxStep] ns
	Local   string `json:"local,omitempty"`    // value for time.Local ("" = leave)
}

type SchedCfg struct {
	StayPermille int `json:"stay,omitempty"`  // probability (‰) to keep running the current task at a yield
	YieldMask    int `json:"ymask,omitempty"` // which callback classes yield (bit set; 0 = all)
	PCTDepth     int `json:"pct,omitempty"`   // >0: PCT-like mode: exactly d preemptions at tape-chosen yield counts below Horizon
	Horizon      int `json:"horizon,omitempty"`
	MaxYields    int `json:"max_yields,omitempty"`
}

type Task struct {
	ID  int  `json:"id"`
	Ops []Op `json:"ops"`
}

// Fault is attached to the k-th Write attempt on writer W.
type Fault struct {
	W       int    `json:"w"`
	Attempt int    `json:"attempt"`
	Kind    string `json:"kind"` // err | partial | short | stall
	N       int    `json:"n,omitempty"`
}

type Tapes struct {
	Sched []int `json:"sched"`
	Pool  []int `json:"pool"`
	Map   []int `json:"map"`
	Clock []int `json:"clock"`
}

// Op is one operation of the world interpreter; which fields are used depends on Op.
type Op struct {
	Op    string    `json:"op"`
	L     int       `json:"l,omitempty"`     // receiver logger id (0 = default logger)
	R     int       `json:"r,omitempty"`     // id under which the result is stored
	Kind  string    `json:"kind,omitempty"`  // setting kind for with/set/new-option, or sub-kind
	Name  string    `json:"name,omitempty"`  // logger name, level title, path, ...
	Named bool      `json:"named,omitempty"` // pass Name (even if empty) as first arg of New
	Lvl   int       `json:"lvl,omitempty"`
	Entry string    `json:"entry,omitempty"` // entry point of a log op
	Msg   string    `json:"msg,omitempty"`
	Args  []Arg     `json:"args,omitempty"`
	Ctx   *CtxSpec  `json:"ctx,omitempty"`
	W     int       `json:"w,omitempty"`    // writer id
	WK    string    `json:"wk,omitempty"`   // writer kind when created: plain | logwriter | levelsettable | file
	B     []bool    `json:"b,omitempty"`    // booleans for mode calls
	S     []string  `json:"s,omitempty"`    // strings (layouts, tags, flags ...)
	I     int64     `json:"i,omitempty"`    // integer parameter
	J     int64     `json:"j,omitempty"`    // second integer parameter
	Opts  []Op      `json:"opts,omitempty"` // options of a New(...) call (Kind + params)
	Tok   string    `json:"tok,omitempty"`  // unique token of a log call
	T     *TimeSpec `json:"t,omitempty"`    // explicit instant (WriteThru, slog.Record)
	Keys  []CtxKey  `json:"keys,omitempty"`
	Nil   bool      `json:"nil,omitempty"` // pass a nil writer / nil ctx
	Probe bool      `json:"probe,omitempty"`
	X     []byte    `json:"x,omitempty"` // raw message bytes (overrides Msg)
}

type TimeSpec struct {
	S    int64  `json:"s"`
	Ns   int64  `json:"ns,omitempty"`
	Zone string `json:"zone,omitempty"`
}

type CtxKey struct {
	Kind string `json:"kind"` // "s" string key, "st" Stringer key, "o" other (ignored by logg)
	Name string `json:"name"`
}

type CtxSpec struct {
	Nil  bool     `json:"nil,omitempty"`
	Vals []CtxVal `json:"vals,omitempty"`
}

type CtxVal struct {
	Key CtxKey `json:"key"`
	V   Arg    `json:"v"`
}

// Arg is a tagged tree describing one element of a free-form argument list.
type Arg struct {
	K     string  `json:"k"`             // kind
	Key   string  `json:"key,omitempty"` // for attr/group kinds
	S     string  `json:"s,omitempty"`
	I     int64   `json:"i,omitempty"`
	F     float64 `json:"f,omitempty"`
	B     bool    `json:"b,omitempty"`
	Items []Arg   `json:"items,omitempty"`
	Ref   int     `json:"ref,omitempty"`
	Y     bool    `json:"y,omitempty"` // yielding variant
	X     []byte  `json:"x,omitempty"` // raw bytes for the string content (overrides S; JSON strings cannot carry invalid UTF-8)
}

// Event is one entry of the world's event log.
type Event struct {
	Q   int             `json:"q"`            // global event sequence number
	T   int             `json:"t"`            // task
	K   string          `json:"k"`            // kind
	Op  int             `json:"op,omitempty"` // index of the op within its list (+1)
	Ph  string          `json:"ph,omitempty"` // phase: setup | task | tail
	W   int             `json:"w,omitempty"`  // writer
	P   []byte          `json:"p,omitempty"`  // payload
	N   int             `json:"n,omitempty"`  // returned n
	Err string          `json:"err,omitempty"`
	F   string          `json:"f,omitempty"` // fault kind fired
	L   int             `json:"l,omitempty"` // level / logger
	S   string          `json:"s,omitempty"` // site / panic value / text
	V   json.RawMessage `json:"v,omitempty"`
	A   int             `json:"a,omitempty"` // attempt number
	D   int             `json:"d,omitempty"` // depth: how many log calls are active on this task
}

// Result is the last line a world writes for a scenario.
type Result struct {
	Done   bool           `json:"done"`
	Tapes  Tapes          `json:"tapes"`            // consumed
	Stats  map[string]int `json:"stats,omitempty"`  // probes and counters measured in-world
	Budget string         `json:"budget,omitempty"` // non-empty: step budget exceeded
	Races  []string       `json:"races,omitempty"`
	SimNs  int64          `json:"sim_ns,omitempty"` // simulated time covered
	Err    string         `json:"err,omitempty"`
}

// Line is the wire format: exactly one of E / R is set.
type Line struct {
	E *Event  `json:"e,omitempty"`
	R *Result `json:"r,omitempty"`
}

// BufScenario is a C19 history.
type BufScenario struct {
	Init    []byte  `json:"init,omitempty"`
	NilInit bool    `json:"nil_init,omitempty"`
	Str     bool    `json:"str,omitempty"` // built with the string constructor
	Ops     []BufOp `json:"ops"`
}

type BufOp struct {
	Op    string     `json:"op"`
	N     int        `json:"n,omitempty"`
	Data  []byte     `json:"data,omitempty"`
	R     int32      `json:"r,omitempty"` // rune
	Delim int        `json:"delim,omitempty"`
	Peer  []PeerStep `json:"peer,omitempty"` // script of the faulty reader / writer
}

// PeerStep is one call on a faulty reader (ReadFrom) or writer (WriteTo).
type PeerStep struct {
	Kind string `json:"kind"` // ok | eof | dataeof | zero | err | neg | over | short | panic
	N    int    `json:"n,omitempty"`
}
