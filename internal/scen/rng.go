package scen

// Rng is a splitmix64 generator: one integer decides everything.
type Rng struct{ s uint64 }

func NewRng(seed uint64) *Rng { return &Rng{s: seed} }

func Mix(a uint64, bs ...uint64) uint64 {
	x := a
	for _, b := range bs {
		x = mix1(x ^ (b + 0x9e3779b97f4a7c15 + (x << 6) + (x >> 2)))
	}
	return mix1(x)
}

func mix1(z uint64) uint64 {
	z += 0x9e3779b97f4a7c15
	z = (z ^ (z >> 30)) * 0xbf58476d1ce4e5b9
	z = (z ^ (z >> 27)) * 0x94d049bb133111eb
	return z ^ (z >> 31)
}

func HashString(s string) uint64 {
	h := uint64(1469598103934665603)
	for i := 0; i < len(s); i++ {
		h ^= uint64(s[i])
		h *= 1099511628211
	}
	return h
}

func (r *Rng) U64() uint64 {
	r.s += 0x9e3779b97f4a7c15
	z := r.s
	z = (z ^ (z >> 30)) * 0xbf58476d1ce4e5b9
	z = (z ^ (z >> 27)) * 0x94d049bb133111eb
	return z ^ (z >> 31)
}

// Intn returns a value in [0,n); 0 when n <= 0.
func (r *Rng) Intn(n int) int {
	if n <= 0 {
		return 0
	}
	return int(r.U64() % uint64(n))
}

// Range returns a value in [lo,hi].
func (r *Rng) Range(lo, hi int) int {
	if hi <= lo {
		return lo
	}
	return lo + r.Intn(hi-lo+1)
}

func (r *Rng) Bool() bool { return r.U64()&1 == 1 }

// Chance is true with probability num/den.
func (r *Rng) Chance(num, den int) bool { return r.Intn(den) < num }

func (r *Rng) I64() int64 { return int64(r.U64()) }

func Pick[T any](r *Rng, xs []T) T {
	return xs[r.Intn(len(xs))]
}

func (r *Rng) Perm(n int) []int {
	p := make([]int, n)
	for i := range p {
		p[i] = i
	}
	for i := n - 1; i > 0; i-- {
		j := r.Intn(i + 1)
		p[i], p[j] = p[j], p[i]
	}
	return p
}

// Fork derives an independent stream.
func (r *Rng) Fork(label uint64) *Rng { return NewRng(Mix(r.U64(), label)) }
