package model

import "verif/internal/scen"

// Special destination ids of the model: the package defaults.
const (
	Stdout = -1
	Stderr = -2
)

// Writers is the reference model of one logger's destination configuration
// (C03): set replaces, add appends, remove deletes that writer, reset restores
// the defaults; a logger never given writers has the defaults.
type Writers struct {
	Normal  []int
	Error   []int
	Leveled map[int][]int
	// Unsure: severities whose per-severity list is not determined by the
	// statement after ResetWriters (DESIGN §5 C03); probes there are skipped.
	Unsure map[int]bool
}

func NewWriters() *Writers {
	return &Writers{Normal: []int{Stdout}, Error: []int{Stderr}, Leveled: map[int][]int{}, Unsure: map[int]bool{}}
}

func remove(l []int, w int) []int {
	for i, x := range l {
		if x == w {
			return append(append([]int{}, l[:i]...), l[i+1:]...)
		}
	}
	return l
}

func Contains(l []int, w int) bool {
	for _, x := range l {
		if x == w {
			return true
		}
	}
	return false
}

// Apply interprets a writer-configuration op (method form or New option form).
// It returns false when the op is not a writer op.
func (m *Writers) Apply(kind string, w, lvl int) bool {
	switch kind {
	case "writer":
		m.Normal = []int{w}
	case "add_writer":
		m.Normal = append(m.Normal, w)
	case "remove_writer":
		m.Normal = remove(m.Normal, w)
	case "errwriter":
		m.Error = []int{w}
	case "add_errwriter":
		m.Error = append(m.Error, w)
	case "remove_errwriter":
		m.Error = remove(m.Error, w)
	case "reset_writers":
		m.Normal = []int{Stdout}
		m.Error = []int{Stderr}
		for l, ws := range m.Leveled {
			if len(ws) > 0 {
				m.Unsure[l] = true
			}
		}
	case "add_level_writer":
		m.Leveled[lvl] = append(m.Leveled[lvl], w)
	case "remove_level_writer":
		m.Leveled[lvl] = remove(m.Leveled[lvl], w)
	case "reset_level_writer":
		delete(m.Leveled, lvl)
		delete(m.Unsure, lvl)
	case "reset_level_writers":
		m.Leveled = map[int][]int{}
		m.Unsure = map[int]bool{}
	default:
		return false
	}
	return true
}

// Select returns the destinations of a record of severity sev, and whether the
// statement determines them.
func (m *Writers) Select(reg *Registry, sev int) (ws []int, sure bool) {
	if m.Unsure[sev] {
		return nil, false
	}
	if l := m.Leveled[sev]; len(l) > 0 {
		return l, true
	}
	if reg.ErrorClass(sev) {
		return m.Error, true
	}
	return m.Normal, true
}

// WritersFromHistory folds the writer ops of a scenario's setup list for every logger id.
// New loggers (new_root/new_child/with) start with the defaults and apply their options.
func WritersFromHistory(setup []scen.Op, upto int) map[int]*Writers {
	ws := map[int]*Writers{0: NewWriters()}
	get := func(id int) *Writers {
		if w, ok := ws[id]; ok {
			return w
		}
		w := NewWriters()
		ws[id] = w
		return w
	}
	for i := range setup {
		if upto >= 0 && i >= upto {
			break
		}
		op := &setup[i]
		switch op.Op {
		case "new_root", "new_child":
			m := NewWriters()
			for _, o := range op.Opts {
				m.Apply(o.Kind, o.W, o.Lvl)
			}
			if op.R != 0 {
				ws[op.R] = m
			}
		case "with":
			m := NewWriters()
			switch op.Kind {
			case "writer":
				m.Apply("writer", op.W, 0)
			case "errwriter":
				m.Apply("errwriter", op.W, 0)
			}
			if op.R != 0 {
				ws[op.R] = m
			}
		case "set":
			get(op.L).Apply(op.Kind, op.W, op.Lvl)
		}
	}
	return ws
}
