// Package model is the small executable reference model of the documented
// behaviour of hedzr/logg, written from the property statements and the
// exported API (constant values), never from implementation tables.
package model

import "sort"

// Exported constants of the API under test (slog.PanicLevel ... slog.FailLevel).
const (
	Panic = iota
	Fatal
	Error
	Warn
	Info
	Debug
	Trace
	Off
	Always
	OK
	Success
	Fail
	MaxLevel
)

var BuiltinNames = map[int]string{
	Panic: "panic", Fatal: "fatal", Error: "error", Warn: "warning", Info: "info", Debug: "debug", Trace: "trace",
	Off: "off", Always: "always", OK: "ok", Success: "success", Fail: "fail",
}

func LevelName(l int) string {
	if n, ok := BuiltinNames[l]; ok {
		return n
	}
	return "L#" + itoa(l)
}

func itoa(i int) string {
	if i == 0 {
		return "0"
	}
	neg := i < 0
	if neg {
		i = -i
	}
	var b []byte
	for i > 0 {
		b = append([]byte{byte('0' + i%10)}, b...)
		i /= 10
	}
	if neg {
		b = append([]byte{'-'}, b...)
	}
	return string(b)
}

// IsOrdinal: Panic..Trace, the levels ordered by severity.
func IsOrdinal(l int) bool { return l >= Panic && l <= Trace }

// Custom is a level registered at run time.
type Custom struct {
	Value    int
	Title    string
	TreatAs  int // valid when HasTreat
	HasTreat bool
	ErrDev   bool
	Tags     []string // index 1..5, "" = none given
}

// Registry is the model of the process-wide level registry.
type Registry struct {
	Customs map[int]*Custom
}

func NewRegistry() *Registry { return &Registry{Customs: map[int]*Custom{}} }

func (r *Registry) Sorted() []*Custom {
	var out []*Custom
	for _, c := range r.Customs {
		out = append(out, c)
	}
	sort.Slice(out, func(i, j int) bool { return out[i].Value < out[j].Value })
	return out
}

// Decision of the admission rule as far as the statement of C01 determines it.
type Decision int

const (
	Unknown Decision = iota // the statement does not say (only consistency is checked)
	Admit
	Deny
)

// Admitted applies the admission rule of C01 to (logger level L, severity r).
func (r *Registry) Admitted(L, sev int, debugMode bool) Decision {
	if L == Off || sev == Off {
		return Deny
	}
	if L == Always || sev == Always {
		return Admit
	}
	if debugMode && sev == Debug {
		return Admit
	}
	if c, ok := r.Customs[sev]; ok && c.HasTreat && c.TreatAs == Debug && debugMode {
		// "Debug is additionally admitted in debug mode" - whether that covers a custom level
		// counting as Debug can be read both ways (the parenthesis of the statement may or may
		// not reach back to that clause): only consistency between entry points is checked
		return Unknown
	}
	eff := sev
	if c, ok := r.Customs[sev]; ok {
		if c.HasTreat {
			eff = c.TreatAs
		}
	} else if !IsOrdinal(sev) {
		// OK / Success / Fail (their class is not spelled out) or an unregistered value
		return Unknown
	}
	if !IsOrdinal(L) {
		return Unknown
	}
	if _, isCustom := r.Customs[sev]; !isCustom && !IsOrdinal(eff) {
		return Unknown
	}
	if c, ok := r.Customs[sev]; ok && c.HasTreat && !IsOrdinal(eff) {
		// treated as a non-ordinal level (Off/Always/OK...): apply the first rules to the treated-as level
		if eff == Off {
			return Unknown
		}
		if eff == Always {
			return Unknown
		}
		return Unknown
	}
	if eff <= L {
		return Admit
	}
	return Deny
}

// ErrorClass: does a record of this severity go to the error writers (C03)?
func (r *Registry) ErrorClass(sev int) bool {
	switch sev {
	case Panic, Fatal, Error, Warn, Fail:
		return true
	}
	if c, ok := r.Customs[sev]; ok {
		return c.ErrDev
	}
	return false
}
