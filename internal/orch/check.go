package orch

import (
	"bytes"
	"encoding/json"
	"fmt"
	"os"
	"path/filepath"
	"sort"
	"strings"
	"sync"
	"sync/atomic"
	"time"

	"verif/internal/scen"
)

// Property is what each claimed property plugs into the driver.
type Property interface {
	ID() string
	Level() string  // exploration | fault_enumeration
	Engine() string // HIST | CONC | PROC | BUF
	Rule() string   // how cases are generated and what makes one distinct and non-trivial
	// Plan says how many episodes the tier runs and how they are batched.
	Plan(tier string) Plan
	// Gen builds episode i (deterministically from seed and i).
	Gen(seed uint64, i int, tier string) *scen.Scenario
	// Check is the oracle.
	Check(sc *scen.Scenario, run *Run, env *Env) []Violation
	// Classify returns a signature for distinctness and whether the episode is non-trivial.
	Classify(sc *scen.Scenario, run *Run) (sig string, nontrivial bool)
}

type Plan struct {
	Episodes       int
	Batch          int  // scenarios per world process (1 = process per episode)
	NeedRace       bool // build the -race world
	NeedFine       bool // build the world with rule R4 (function-entry yields)
	Exhaustive     bool // the enumerated core of this tier is complete
	Assumptions    []string
	RealStub       map[string][]string
	MinimiseBudget int
	// RaceEpisodes further episodes (indices Episodes ... Episodes+RaceEpisodes-1) run in the race world, RaceBatch per process.
	RaceEpisodes int
	RaceBatch    int
}

// Finding is an entry of known_findings.json.
type Finding struct {
	Property string `json:"property"`
	Status   string `json:"status"` // open | fixed
	Rule     string `json:"rule"`
	Witness  string `json:"witness"`
	Commit   string `json:"commit,omitempty"`
	Text     string `json:"text"`
}

func LoadFindings(path string) ([]Finding, error) {
	b, err := os.ReadFile(path)
	if err != nil {
		if os.IsNotExist(err) {
			return nil, nil
		}
		return nil, err
	}
	var fs []Finding
	if err := json.Unmarshal(b, &fs); err != nil {
		return nil, err
	}
	return fs, nil
}

// Replay is the file written for a violation.
type Replay struct {
	Property  string         `json:"property"`
	Rule      string         `json:"rule"`
	Witness   string         `json:"witness"`
	Detail    string         `json:"detail"`
	Seed      uint64         `json:"verif_seed"`
	Episode   int            `json:"episode"`
	Minimised bool           `json:"minimised"`
	Scenario  *scen.Scenario `json:"scenario"`
}

type episodeOut struct {
	i     int
	sc    *scen.Scenario
	run   *Run
	viols []Violation
	sig   string
	nontr bool
}

type Summary struct {
	Episodes     int
	Violations   []Replay
	Known        map[string]int
	Inconclusive int
	ExitCode     int
}

// Options of one check invocation.
type Options struct {
	Tier      string
	Seed      uint64
	VerifDir  string
	RepoDir   string
	Workers   int
	MaxWall   time.Duration
	Episodes  int // override (0 = plan)
	KeepGoing bool
}

func logf(format string, a ...any) { fmt.Printf(format+"\n", a...) }

// RunCheck is the whole pipeline for one property and tier.
func RunCheck(p Property, opt Options) int {
	t0 := time.Now()
	logf("VERIF_SEED=%d property=%s tier=%s", opt.Seed, p.ID(), opt.Tier)
	plan := p.Plan(opt.Tier)
	if opt.Episodes > 0 {
		plan.Episodes = opt.Episodes
	}
	env, err := BuildWorlds(opt.VerifDir, opt.RepoDir, plan.NeedRace, plan.NeedFine, nil)
	defer env.Cleanup()
	if err != nil {
		logf("BUILD-TROUBLE: %v", err)
		return 2
	}
	logf("built worlds in %.1fs; seams=%v", env.BuildS, env.Seams.Seams)
	findings, err := LoadFindings(filepath.Join(opt.VerifDir, "known_findings.json"))
	if err != nil {
		logf("BUILD-TROUBLE: known_findings.json: %v", err)
		return 2
	}

	// determinism self-test as part of every thorough run: a sample of episodes twice, hashes must agree
	var retried int64
	selfN := 0
	if opt.Tier == "thorough" {
		selfN = 24
		step := plan.Episodes / selfN
		if step < 1 {
			step = 1
		}
		div := 0
		var mu sync.Mutex
		var swg sync.WaitGroup
		for i := 0; i < plan.Episodes && i/step < selfN; i += step {
			swg.Add(1)
			go func(i int) {
				defer swg.Done()
				a := hashRun(env.execWith([]*scen.Scenario{p.Gen(opt.Seed, i, opt.Tier)}, 60*time.Second, []string{"GOMAXPROCS=1"})[0])
				b := hashRun(env.execWith([]*scen.Scenario{p.Gen(opt.Seed, i, opt.Tier)}, 60*time.Second, []string{"GOMAXPROCS=8"})[0])
				if a != b {
					mu.Lock()
					div++
					mu.Unlock()
				}
			}(i)
		}
		swg.Wait()
		if div > 0 {
			logf("DETERMINISM-SELFTEST-FAILED: %d of %d sampled episodes gave different event logs when run twice (simulator problem)", div, selfN)
			return 2
		}
		logf("determinism self-test: %d episodes x 2 runs (GOMAXPROCS 1 and 8) identical", selfN)
	}
	workers := opt.Workers
	if workers <= 0 {
		workers = 16
	}
	batch := plan.Batch
	if batch <= 0 {
		batch = 1
	}

	type job struct{ from, to int }
	var illFormed int64
	jobs := make(chan job, 64)
	outs := make(chan episodeOut, 256)
	var wg sync.WaitGroup
	deadline := time.Time{}
	if opt.MaxWall > 0 {
		deadline = t0.Add(opt.MaxWall)
	}
	for k := 0; k < workers; k++ {
		wg.Add(1)
		go func() {
			defer wg.Done()
			for j := range jobs {
				var scs []*scen.Scenario
				for i := j.from; i < j.to; i++ {
					gi := i
					if i >= plan.Episodes {
						gi = -(i - plan.Episodes + 1) // race-world episodes are numbered -1, -2, ...
					}
					sc := p.Gen(opt.Seed, gi, opt.Tier)
					if wf, ok := p.(interface{ WellFormed(*scen.Scenario) bool }); ok && !wf.WellFormed(sc) {
						// the well-formedness guard of the minimiser must accept everything the generator makes,
						// otherwise a real violation would be dropped as not reproducible
						if atomic.AddInt64(&illFormed, 1) == 1 {
							logf("HARNESS-TROUBLE property=%s: generated episode %d is rejected by the property's own WellFormed guard", p.ID(), gi)
						}
					}
					scs = append(scs, sc)
				}
				to := 30 * time.Second
				if len(scs) > 1 {
					to = 120 * time.Second
				}
				if len(scs) > 0 && scs[0].World.Race {
					to = 300 * time.Second
				}
				runs := env.Exec(scs, to)
				for k, sc := range scs {
					// a world that ran out of wall-clock time is run once more, alone and with more time: on a
					// loaded machine a process can starve, and an episode is a function of its scenario, so
					// the second run is the same episode (a world that really hangs times out again)
					if runs[k] != nil && runs[k].TimedOut && !sc.World.Race {
						atomic.AddInt64(&retried, 1)
						runs[k] = env.Exec([]*scen.Scenario{sc}, 4*to)[0]
					}
				}
				for k, sc := range scs {
					eo := episodeOut{i: j.from + k, sc: sc, run: runs[k]}
					eo.viols = judge(p, sc, runs[k], env)
					eo.sig, eo.nontr = p.Classify(sc, runs[k])
					outs <- eo
				}
			}
		}()
	}
	go func() {
		// the race worlds are slow to start: queue them first so that they overlap with the plain episodes
		rb := plan.RaceBatch
		if rb <= 0 {
			rb = 1
		}
		for i := plan.Episodes; i < plan.Episodes+plan.RaceEpisodes; i += rb {
			to := i + rb
			if to > plan.Episodes+plan.RaceEpisodes {
				to = plan.Episodes + plan.RaceEpisodes
			}
			jobs <- job{i, to}
		}
		for i := 0; i < plan.Episodes; i += batch {
			if !deadline.IsZero() && time.Now().After(deadline) {
				break
			}
			to := i + batch
			if to > plan.Episodes {
				to = plan.Episodes
			}
			jobs <- job{i, to}
		}
		close(jobs)
		wg.Wait()
		close(outs)
	}()

	ev := newEvidence(p, opt, plan)
	ev.selfN = selfN
	firstByKey := map[string]episodeOut{}
	countByKey := map[string]int{}
	inconclusive := 0
	harness := 0
	for eo := range outs {
		ev.add(eo)
		if eo.run.Result == nil || eo.run.TimedOut || (eo.run.Result != nil && (eo.run.Result.Err != "" || eo.run.Result.Budget != "")) {
			if !allowedDeath(p, eo) && len(eo.viols) == 0 {
				inconclusive++
				if inconclusive <= 3 {
					msg := ""
					if eo.run.Result != nil {
						msg = eo.run.Result.Err + eo.run.Result.Budget
					}
					logf("INCONCLUSIVE episode=%d exit=%d timeout=%v %s stderr=%.300q", eo.i, eo.run.ExitCode, eo.run.TimedOut, msg, eo.run.Stderr)
				}
			}
		}
		for _, v := range eo.viols {
			if strings.HasPrefix(v.Rule, "HARNESS.") {
				// the oracle could not observe what it needs (a seam was bypassed): never a verdict
				harness++
				if harness <= 3 {
					logf("HARNESS-TROUBLE episode=%d %s %s: %s", eo.i, v.Rule, v.Witness, v.Detail)
				}
				continue
			}
			k := v.Key()
			countByKey[k]++
			if old, ok := firstByKey[k]; !ok || eo.i < old.i {
				firstByKey[k] = eo
			}
		}
	}
	ev.wall = time.Since(t0).Seconds()

	// classify violations: known findings vs new
	keys := make([]string, 0, len(firstByKey))
	for k := range firstByKey {
		keys = append(keys, k)
	}
	sort.Strings(keys)
	exit := 0
	nViol := 0
	knownSeen := map[string]bool{}
	_ = os.MkdirAll(filepath.Join(opt.VerifDir, "replays"), 0o755)
	reported := 0
	notRepro := 0
	for _, k := range keys {
		eo := firstByKey[k]
		var v Violation
		for _, x := range eo.viols {
			if x.Key() == k {
				v = x
				break
			}
		}
		if f := matchFinding(findings, p.ID(), v); f != nil {
			knownSeen[f.Rule+"|"+f.Witness] = true
			continue
		}
		nViol++
		if reported >= 12 {
			continue // enough replay files; all are counted
		}
		reported++
		rp := p2replay(p, opt, eo, v)
		path := filepath.Join(opt.VerifDir, "replays", fmt.Sprintf("%s-%d-%s.json", p.ID(), opt.Seed, sanitize(k)))
		final := confirmAndMinimise(p, env, rp, plan, opt.Tier)
		if final == nil {
			// does not replay from its own file: a simulator bug, never a VIOLATION line
			logf("NOT-REPRODUCIBLE property=%s rule=%s witness=%s episode=%d (does not replay from its own file: not reported as a violation)", p.ID(), v.Rule, v.Witness, eo.i)
			notRepro++
			nViol--
			continue
		}
		b, _ := json.MarshalIndent(final, "", " ")
		_ = os.WriteFile(path, b, 0o644)
		logf("VIOLATION property=%s replay=%s", p.ID(), path)
		logf("  rule=%s witness=%s seen_in=%d episodes; %s", v.Rule, v.Witness, countByKey[k], final.Detail)
		exit = maxInt(exit, 1)
	}
	for _, f := range findings {
		if f.Property != p.ID() || f.Status != "open" {
			continue
		}
		note := ""
		if !knownSeen[f.Rule+"|"+f.Witness] {
			note = " (not exercised in this run)"
		}
		logf("KNOWN-FINDING: property=%s rule=%s witness=%s %s%s", p.ID(), f.Rule, f.Witness, f.Text, note)
	}
	ev.violations = nViol
	ev.known = len(knownSeen)
	ev.inconclusive = inconclusive
	ev.env = env
	if err := ev.write(filepath.Join(opt.VerifDir, "evidence", p.ID()+".json")); err != nil {
		logf("BUILD-TROUBLE: evidence: %v", err)
		return 2
	}
	if n := atomic.LoadInt64(&retried); n > 0 {
		logf("note: %d worlds ran out of wall-clock time and were run again (a loaded machine; episodes are functions of their scenario)", n)
	}
	if notRepro > 0 && exit == 0 {
		exit = 2 // nothing replayable was found, but something was seen that does not replay: simulator trouble
	}
	if n := atomic.LoadInt64(&illFormed); n > 0 && exit == 0 {
		logf("HARNESS-TROUBLE: %d generated episodes are not well-formed by the property's own guard", n)
		exit = 2
	}
	if harness > 0 && exit == 0 {
		logf("HARNESS-TROUBLE: in %d episodes an oracle could not observe what it needs", harness)
		exit = 2
	}
	if inconclusive > 0 && exit == 0 {
		logf("INCONCLUSIVE: %d episodes ended abnormally (budget/timeout/harness)", inconclusive)
		exit = 2
	}
	logf("done property=%s tier=%s episodes=%d distinct_nontrivial=%d violations=%d known=%d wall=%.1fs exit=%d",
		p.ID(), opt.Tier, ev.evaluations, len(ev.distinct), nViol, len(knownSeen), ev.wall, exit)
	return exit
}

// allowedDeath lets a property say that a process death is an expected observation (C12).
// judge is Property.Check behind one guard that belongs to the simulator, not to any property: the cooperative
// scheduler sees locks, channel operations, condition variables and wait groups of package slog (rules R5, R7). A
// task that blocks in anything else while it is the only goroutine allowed to run makes the Go runtime report
// "all goroutines are asleep" although in a real process the parked tasks would be running. That is a limit of the
// simulator (exit 2), never a verdict. When every task was accounted for as waiting, the world says so first
// (ALL-TASKS-WAIT, DEADLOCK) and the oracles judge the dead world as usual.
func judge(p Property, sc *scen.Scenario, run *Run, env *Env) []Violation {
	if run != nil && bytes.Contains(run.Stderr, []byte("all goroutines are asleep - deadlock!")) &&
		!bytes.Contains(run.Stderr, []byte("verif: ALL-TASKS-WAIT")) && !bytes.Contains(run.Stderr, []byte("verif: DEADLOCK")) && tasksWereParked(sc, run) {
		return []Violation{{Rule: "HARNESS.blocking", Witness: "unseen-primitive", Detail: "a caller task blocked in a primitive the scheduler does not see while the other tasks were parked by the simulator"}}
	}
	return p.Check(sc, run, env)
}

// tasksWereParked: the world died while several caller tasks existed, so some of them may have been held parked by
// the simulator. With one task at most, or in the set-up and tail phases, nobody is parked: a deadlock the runtime
// reports there is the library's own.
func tasksWereParked(sc *scen.Scenario, run *Run) bool {
	if sc == nil || len(sc.Tasks) <= 1 {
		return false
	}
	last := ""
	for i := range run.Events {
		if run.Events[i].K == "op" {
			last = run.Events[i].Ph
		}
	}
	return last == "task"
}

func allowedDeath(p Property, eo episodeOut) bool {
	if d, ok := p.(interface {
		DeathExpected(sc *scen.Scenario, run *Run) bool
	}); ok {
		return d.DeathExpected(eo.sc, eo.run)
	}
	return false
}

func maxInt(a, b int) int {
	if a > b {
		return a
	}
	return b
}

func sanitize(s string) string {
	var b strings.Builder
	for _, c := range s {
		switch {
		case c >= 'a' && c <= 'z', c >= 'A' && c <= 'Z', c >= '0' && c <= '9', c == '.', c == '-', c == '_':
			b.WriteRune(c)
		default:
			b.WriteByte('_')
		}
		if b.Len() > 80 {
			break
		}
	}
	return b.String()
}

func matchFinding(fs []Finding, prop string, v Violation) *Finding {
	for i := range fs {
		f := &fs[i]
		if f.Property == prop && f.Status == "open" && f.Rule == v.Rule && f.Witness == v.Witness {
			return f
		}
	}
	return nil
}

func p2replay(p Property, opt Options, eo episodeOut, v Violation) *Replay {
	sc := *eo.sc
	if eo.run.Result != nil {
		t := eo.run.Result.Tapes
		sc.Tapes = &t
	}
	return &Replay{Property: p.ID(), Rule: v.Rule, Witness: v.Witness, Detail: v.Detail, Seed: opt.Seed, Episode: eo.i, Scenario: &sc}
}

// reproduces runs the scenario in a fresh process and reports the matching violation.
func reproduces(p Property, env *Env, sc *scen.Scenario, rule, witness string) (*Violation, *Run) {
	// a shrunk document must still satisfy the generator's invariants the oracle relies on
	if wf, ok := p.(interface{ WellFormed(*scen.Scenario) bool }); ok && !wf.WellFormed(sc) {
		return nil, &Run{}
	}
	sc.World.Isolated = true
	run := env.Exec1(sc)
	for _, v := range judge(p, sc, run, env) {
		if v.Rule == rule && v.Witness == witness {
			return &v, run
		}
	}
	// a property may accept a near witness as the same violation (race reports name whichever of
	// several racing pairs on the same data the detector met first)
	if sv, ok := p.(interface {
		SameViolation(rule, w1, w2 string) bool
	}); ok {
		for _, v := range judge(p, sc, run, env) {
			if v.Rule == rule && sv.SameViolation(rule, witness, v.Witness) {
				return &v, run
			}
		}
	}
	return nil, run
}

// confirmAndMinimise replays the violation from explicit tapes, shrinks it, and
// replays the shrunk file once more in a fresh process. nil = did not replay.
func confirmAndMinimise(p Property, env *Env, rp *Replay, plan Plan, tier string) *Replay {
	tries := 1
	if rp.Scenario.World.Race {
		tries = 8 // the real sync.Pool of a race build drops Puts at random (DESIGN §2.4)
	}
	var v *Violation
	for t := 0; t < tries && v == nil; t++ {
		v, _ = reproduces(p, env, cloneScenario(rp.Scenario), rp.Rule, rp.Witness)
	}
	if v == nil {
		return nil
	}
	budget := plan.MinimiseBudget
	if budget == 0 {
		budget = 200
		if tier == "thorough" {
			budget = 500
		}
	}
	if rp.Scenario.World.Race {
		budget /= 8
	}
	small := Minimise(rp.Scenario, budget, func(sc *scen.Scenario) bool {
		x, _ := reproduces(p, env, sc, rp.Rule, rp.Witness)
		return x != nil
	})
	if v2, _ := reproduces(p, env, cloneScenario(small), rp.Rule, rp.Witness); v2 != nil {
		out := *rp
		out.Scenario = small
		out.Minimised = true
		out.Detail = v2.Detail
		return &out
	}
	out := *rp
	out.Detail = v.Detail
	return &out
}

func cloneScenario(sc *scen.Scenario) *scen.Scenario {
	b, _ := json.Marshal(sc)
	var c scen.Scenario
	_ = json.Unmarshal(b, &c)
	return &c
}

// RunReplay re-runs a replay file against the current tree.
func RunReplay(props map[string]Property, path string, opt Options) int {
	b, err := os.ReadFile(path)
	if err != nil {
		logf("BUILD-TROUBLE: %v", err)
		return 2
	}
	var rp Replay
	if err := json.Unmarshal(b, &rp); err != nil || rp.Scenario == nil {
		logf("BUILD-TROUBLE: bad replay file: %v", err)
		return 2
	}
	p, ok := props[rp.Property]
	if !ok {
		logf("BUILD-TROUBLE: unknown property %q", rp.Property)
		return 2
	}
	logf("VERIF_SEED=%d replay property=%s rule=%s witness=%s", rp.Seed, rp.Property, rp.Rule, rp.Witness)
	env, err := BuildWorlds(opt.VerifDir, opt.RepoDir, rp.Scenario.World.Race, rp.Scenario.World.Fine, nil)
	defer env.Cleanup()
	if err != nil {
		logf("BUILD-TROUBLE: %v", err)
		return 2
	}
	tries := 1
	if rp.Scenario.World.Race {
		tries = 8
	}
	for t := 0; t < tries; t++ {
		v, run := reproduces(p, env, cloneScenario(rp.Scenario), rp.Rule, rp.Witness)
		if v != nil {
			logf("VIOLATION property=%s replay=%s", rp.Property, path)
			logf("  rule=%s witness=%s; %s", v.Rule, v.Witness, v.Detail)
			return 1
		}
		if t == tries-1 {
			others := judge(p, rp.Scenario, run, env)
			logf("not reproduced: the recorded violation does not occur on this tree (%d other verdicts)", len(others))
			for _, o := range others {
				logf("  other: rule=%s witness=%s; %s", o.Rule, o.Witness, o.Detail)
			}
		}
	}
	return 0
}
