package orch

import (
	"sort"
	"strings"
)

// RaceReport is one "WARNING: DATA RACE" block of the Go race detector.
type RaceReport struct {
	Text      string
	LoggFuncs []string // innermost hedzr/logg function of each of the two racing accesses
	Harness   bool     // the racing accesses themselves are harness code, or no logg code is involved at all
}

type raceFrame struct{ fn, file string }

func parseFrames(lines []string) []raceFrame {
	var fs []raceFrame
	for i := 0; i+1 < len(lines); i++ {
		if strings.HasPrefix(lines[i], "  ") && !strings.HasPrefix(lines[i], "   ") && strings.HasPrefix(lines[i+1], "      ") {
			fs = append(fs, raceFrame{strings.TrimSpace(lines[i]), strings.TrimSpace(lines[i+1])})
			i++
		}
	}
	return fs
}

// isLoggFrame: the frame is a function of the module under test. The import path in the function name decides,
// not the directory: the tree under test may be checked out anywhere (VERIF_REPO, a scratch worktree).
func isLoggFrame(f raceFrame) bool {
	return strings.HasPrefix(f.fn, "github.com/hedzr/logg/") || strings.HasPrefix(f.fn, "github.com/hedzr/logg.") ||
		strings.HasPrefix(f.file, "/repo/slog/") || strings.Contains(f.file, "/hedzr/logg") || strings.Contains(f.file, "hedzr/logg@")
}

func isHarnessFile(file string) bool {
	return strings.Contains(file, "/verif/internal/") || strings.Contains(file, "/verif/cmd/") || strings.HasSuffix(strings.SplitN(file, ":", 2)[0], "zz_verif_sim.go")
}

func shortFn(fn string) string {
	fn = strings.TrimSuffix(fn, "()")
	if k := strings.Index(fn, "["); k >= 0 {
		fn = fn[:k]
	}
	if k := strings.LastIndex(fn, "/"); k >= 0 {
		fn = fn[k+1:]
	}
	return fn
}

// ParseRaces splits the stderr of a race world into reports.
func ParseRaces(stderr []byte) []RaceReport {
	var out []RaceReport
	txt := string(stderr)
	for {
		i := strings.Index(txt, "WARNING: DATA RACE")
		if i < 0 {
			break
		}
		rest := txt[i:]
		j := strings.Index(rest, "\n==================")
		block := rest
		if j >= 0 {
			block = rest[:j]
			txt = rest[j+1:]
		} else {
			txt = ""
		}
		rep := RaceReport{Text: block}
		// sections are separated by blank lines; the first two are the racing accesses
		secs := strings.Split(block, "\n\n")
		var accesses [][]raceFrame
		for _, sec := range secs {
			lines := strings.Split(sec, "\n")
			head := ""
			for _, ln := range lines {
				if strings.TrimSpace(ln) != "" && !strings.HasPrefix(ln, "WARNING") {
					head = ln
					break
				}
			}
			lh := strings.ToLower(head)
			if strings.Contains(lh, "read at") || strings.Contains(lh, "write at") {
				accesses = append(accesses, parseFrames(lines))
			}
		}
		harnessTops, loggSeen := 0, false
		seen := map[string]bool{}
		for _, fs := range accesses {
			if len(fs) > 0 && isHarnessFile(fs[0].file) {
				harnessTops++
			}
			for _, f := range fs {
				if isLoggFrame(f) && !isHarnessFile(f.file) {
					loggSeen = true
					s := shortFn(f.fn)
					if !seen[s] {
						seen[s] = true
						rep.LoggFuncs = append(rep.LoggFuncs, s)
					}
					break
				}
			}
		}
		sort.Strings(rep.LoggFuncs)
		rep.Harness = !loggSeen || (len(accesses) > 0 && harnessTops == len(accesses))
		out = append(out, rep)
	}
	return out
}
