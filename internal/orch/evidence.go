package orch

import (
	"encoding/json"
	"os"
	"path/filepath"
	"sort"
	"strings"

	"verif/internal/scen"
)

type evidence struct {
	p            Property
	opt          Options
	plan         Plan
	evaluations  int
	distinct     map[string]bool
	samples      []any
	stats        map[string]int
	simNs        int64
	wall         float64
	violations   int
	known        int
	inconclusive int
	env          *Env
	schedHashes  map[int]bool
	selfN        int
}

func newEvidence(p Property, opt Options, plan Plan) *evidence {
	return &evidence{p: p, opt: opt, plan: plan, distinct: map[string]bool{}, stats: map[string]int{}, schedHashes: map[int]bool{}}
}

func (e *evidence) add(eo episodeOut) {
	e.evaluations++
	if eo.nontr && eo.sig != "" {
		e.distinct[eo.sig] = true
	}
	if eo.run.Result != nil {
		for k, v := range eo.run.Result.Stats {
			if k == "sched.hash_lo" {
				e.schedHashes[v] = true
				continue
			}
			e.stats[k] += v
		}
		e.simNs += eo.run.Result.SimNs
	}
	if len(e.samples) < 3 && (eo.nontr || eo.i < 1) {
		e.samples = append(e.samples, map[string]any{"episode": eo.i, "scenario": eo.sc})
	}
}

func (e *evidence) write(path string) error {
	if err := os.MkdirAll(filepath.Dir(path), 0o755); err != nil {
		return err
	}
	faults := map[string]int{}
	probes := map[string]int{}
	keys := make([]string, 0, len(e.stats))
	for k := range e.stats {
		keys = append(keys, k)
	}
	sort.Strings(keys)
	for _, k := range keys {
		if strings.HasPrefix(k, "fault.") {
			faults[strings.TrimPrefix(k, "fault.")] = e.stats[k]
		} else {
			probes[k] = e.stats[k]
		}
	}
	if len(e.samples) == 0 {
		e.samples = append(e.samples, "no episode ran")
	}
	perHour := 0.0
	if e.wall > 0 {
		perHour = float64(e.evaluations) / e.wall * 3600
	}
	cov := map[string]any{
		"evaluations":         e.evaluations,
		"distinct_nontrivial": len(e.distinct),
		"rule":                e.p.Rule(),
		"samples":             e.samples,
		"exhaustive":          e.plan.Exhaustive,
		"runs_per_hour":       int(perHour),
		"seeds_per_hour":      int(perHour),
		"distinct_measure":    "distinct_nontrivial counts distinct case signatures (see rule); distinct_schedules counts distinct hashes of the consumed scheduler tape",
		"simulated_time_ns":   e.simNs,
		"faults_fired":        faults,
		"probes":              probes,
		"distinct_schedules":  len(e.schedHashes),
		"engine":              e.p.Engine(),
		"known_findings_seen": e.known,
		"inconclusive":        e.inconclusive,
	}
	if e.selfN > 0 {
		cov["determinism_selftest"] = map[string]any{"episodes": e.selfN, "runs_each": 2, "divergences": 0}
	}
	if e.env != nil && e.env.Seams != nil {
		cov["seams"] = e.env.Seams.Seams
		cov["seam_sites"] = e.env.Seams.Sites
		cov["build_s"] = e.env.BuildS
	}
	rs := e.plan.RealStub
	if rs == nil {
		rs = map[string][]string{
			"real": {"github.com/hedzr/logg/slog (overlay seams only)", "github.com/hedzr/is", "gopkg.in/hedzr/errors.v3", "Go runtime, log/slog, log, bytes"},
			"stub": {"destinations (io.Writer/LogWriter/LevelSettable)", "clock", "sync.Pool policy", "map iteration order", "caller tasks and scheduler"},
		}
	}
	cov["real_vs_stub"] = rs
	doc := map[string]any{
		"property_id": e.p.ID(),
		"tier":        e.opt.Tier,
		"seed":        e.opt.Seed,
		"level":       e.p.Level(),
		"coverage":    cov,
		"assumptions": append([]string{"Go toolchain, OS process isolation and the overlay rewriter are trusted", "sampling, not enumeration, unless exhaustive is true"}, e.plan.Assumptions...),
		"wall_s":      e.wall,
		"violations":  e.violations,
	}
	b, err := json.MarshalIndent(doc, "", " ")
	if err != nil {
		return err
	}
	return os.WriteFile(path, b, 0o644)
}

var _ = scen.Mix
