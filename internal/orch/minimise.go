package orch

import (
	"encoding/json"

	"verif/internal/scen"
)

// Minimise is a generic delta debugger over the scenario document: it deletes
// array chunks (ops, tasks, args, faults, tape entries), zeroes numbers and
// shortens strings, keeping a change whenever the predicate still holds. The
// world interpreter is total, so every shrunk document is executable.
func Minimise(sc *scen.Scenario, budget int, fails func(*scen.Scenario) bool) *scen.Scenario {
	cur := toTree(sc)
	runs := 0
	try := func(cand any) bool {
		if runs >= budget {
			return false
		}
		s := fromTree(cand)
		if s == nil {
			return false
		}
		runs++
		return fails(s)
	}
	for pass := 0; pass < 6 && runs < budget; pass++ {
		progress := false
		// 1. arrays: remove chunks
		for _, path := range arrayPaths(cur, nil) {
			arr, ok := getPath(cur, path).([]any)
			if !ok || len(arr) == 0 {
				continue
			}
			if protectedPath(path) {
				continue
			}
			for chunk := len(arr); chunk >= 1; chunk /= 2 {
				for start := 0; start+chunk <= len(arr); {
					if runs >= budget {
						break
					}
					cand := cloneTree(cur)
					a := getPath(cand, path).([]any)
					na := append(append([]any{}, a[:start]...), a[start+chunk:]...)
					setPath(cand, path, na)
					if try(cand) {
						cur = cand
						arr = na
						progress = true
					} else {
						start += chunk
					}
				}
				if chunk == 1 {
					break
				}
			}
		}
		// 2. scalars: zero numbers, empty strings, false booleans
		for _, path := range scalarPaths(cur, nil) {
			if runs >= budget {
				break
			}
			if protectedPath(path) {
				continue
			}
			v := getPath(cur, path)
			var nv any
			switch x := v.(type) {
			case float64:
				if x == 0 || protectedNumber(path) {
					continue
				}
				nv = float64(0)
			case string:
				if x == "" || protectedString(path) {
					continue
				}
				nv = ""
			case bool:
				if !x {
					continue
				}
				nv = false
			default:
				continue
			}
			cand := cloneTree(cur)
			setPath(cand, path, nv)
			if try(cand) {
				cur = cand
				progress = true
			}
		}
		if !progress {
			break
		}
	}
	out := fromTree(cur)
	if out == nil {
		return sc
	}
	return out
}

// protectedPath keeps the identity of the document intact.
func protectedPath(p []any) bool {
	if len(p) == 0 {
		return false
	}
	if k, ok := p[0].(string); ok {
		switch k {
		case "property", "engine", "seed":
			return true
		case "tasks":
			// task ids name the caller tasks in the event log: renumbering them makes another document
			if len(p) == 3 {
				if k2, ok := p[2].(string); ok && k2 == "id" {
					return true
				}
			}
		case "world":
			if len(p) > 1 {
				if k2, ok := p[1].(string); ok && k2 == "clock" {
					return true
				}
			}
		}
	}
	return false
}

// protectedNumber: the ids of loggers, destinations and shared objects are names, not magnitudes - zeroing one
// makes the op speak about another object (logger 0 is the package's default logger, whose destinations a
// world may not record), which can "reproduce" a witness for an unrelated reason.
func protectedNumber(p []any) bool {
	if len(p) == 0 {
		return false
	}
	if k, ok := p[len(p)-1].(string); ok {
		switch k {
		case "l", "r", "w", "ref":
			return true
		}
	}
	return false
}

// protectedString: op kinds and entry names are structure, not data.
func protectedString(p []any) bool {
	if len(p) == 0 {
		return false
	}
	if k, ok := p[len(p)-1].(string); ok {
		switch k {
		case "op", "kind", "entry", "k", "wk", "mode", "tok", "msg":
			return true
		}
	}
	return false
}

func toTree(sc *scen.Scenario) any {
	b, _ := json.Marshal(sc)
	var t any
	_ = json.Unmarshal(b, &t)
	return t
}

func fromTree(t any) *scen.Scenario {
	b, err := json.Marshal(t)
	if err != nil {
		return nil
	}
	var sc scen.Scenario
	if err := json.Unmarshal(b, &sc); err != nil {
		return nil
	}
	return &sc
}

func cloneTree(t any) any {
	switch x := t.(type) {
	case map[string]any:
		m := make(map[string]any, len(x))
		for k, v := range x {
			m[k] = cloneTree(v)
		}
		return m
	case []any:
		a := make([]any, len(x))
		for i, v := range x {
			a[i] = cloneTree(v)
		}
		return a
	}
	return t
}

func sortedKeys(m map[string]any) []string {
	ks := make([]string, 0, len(m))
	for k := range m {
		ks = append(ks, k)
	}
	// insertion sort (small maps); avoids depending on map order anywhere
	for i := 1; i < len(ks); i++ {
		for j := i; j > 0 && ks[j] < ks[j-1]; j-- {
			ks[j], ks[j-1] = ks[j-1], ks[j]
		}
	}
	return ks
}

func arrayPaths(t any, prefix []any) [][]any {
	var out [][]any
	switch x := t.(type) {
	case map[string]any:
		for _, k := range sortedKeys(x) {
			out = append(out, arrayPaths(x[k], append(append([]any{}, prefix...), k))...)
		}
	case []any:
		out = append(out, append([]any{}, prefix...))
		for i, v := range x {
			out = append(out, arrayPaths(v, append(append([]any{}, prefix...), i))...)
		}
	}
	return out
}

func scalarPaths(t any, prefix []any) [][]any {
	var out [][]any
	switch x := t.(type) {
	case map[string]any:
		for _, k := range sortedKeys(x) {
			out = append(out, scalarPaths(x[k], append(append([]any{}, prefix...), k))...)
		}
	case []any:
		for i, v := range x {
			out = append(out, scalarPaths(v, append(append([]any{}, prefix...), i))...)
		}
	default:
		out = append(out, append([]any{}, prefix...))
	}
	return out
}

func getPath(t any, path []any) any {
	cur := t
	for _, p := range path {
		switch k := p.(type) {
		case string:
			m, ok := cur.(map[string]any)
			if !ok {
				return nil
			}
			cur = m[k]
		case int:
			a, ok := cur.([]any)
			if !ok || k >= len(a) {
				return nil
			}
			cur = a[k]
		}
	}
	return cur
}

func setPath(t any, path []any, v any) {
	cur := t
	for i, p := range path {
		last := i == len(path)-1
		switch k := p.(type) {
		case string:
			m, ok := cur.(map[string]any)
			if !ok {
				return
			}
			if last {
				m[k] = v
				return
			}
			cur = m[k]
		case int:
			a, ok := cur.([]any)
			if !ok || k >= len(a) {
				return
			}
			if last {
				a[k] = v
				return
			}
			cur = a[k]
		}
	}
}
