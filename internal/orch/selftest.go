package orch

import (
	"crypto/sha256"
	"encoding/json"
	"fmt"
	"regexp"
	"sort"
	"sync"
	"time"

	"verif/internal/scen"
)

var addrRe = regexp.MustCompile(`0x[0-9a-f]{6,}`)

// hashRun fingerprints everything a world reported for one episode.
func hashRun(r *Run) string {
	h := sha256.New()
	for i := range r.Events {
		e := r.Events[i]
		// the only normalisation: heap addresses printed for pointer, func and chan values
		// (C02 passes such values on purpose) differ between processes
		if len(e.P) > 0 {
			e.P = addrRe.ReplaceAll(e.P, []byte("0xADDR"))
		}
		b, _ := json.Marshal(e)
		h.Write(b)
	}
	if r.Result != nil {
		res := *r.Result
		b, _ := json.Marshal(res)
		h.Write(b)
	}
	h.Write(r.Stdout)
	h.Write(r.Stderr)
	fmt.Fprintf(h, "exit=%d", r.ExitCode)
	return fmt.Sprintf("%x", h.Sum(nil))[:16]
}

// SelfTest is the determinism self-test: the same (seed, episode) must give the
// same event log in every process, whatever the worker count and GOMAXPROCS.
// Exit 0 = all identical, 2 = a divergence (a simulator bug, never a VIOLATION).
func SelfTest(props map[string]Property, ids []string, opt Options, perProp int) int {
	t0 := time.Now()
	env, err := BuildWorlds(opt.VerifDir, opt.RepoDir, false, true, nil)
	defer env.Cleanup()
	if err != nil {
		logf("BUILD-TROUBLE: %v", err)
		return 2
	}
	sort.Strings(ids)
	bad := 0
	total := 0
	for _, id := range ids {
		p := props[id]
		plan := p.Plan("quick")
		step := plan.Episodes / perProp
		if step < 1 {
			step = 1
		}
		var idx []int
		for i := 0; i < plan.Episodes && len(idx) < perProp; i += step {
			idx = append(idx, i)
		}
		ref := map[int]string{}
		for _, cfg := range []struct{ workers, procs int }{{1, 1}, {4, 4}, {16, 16}, {16, 1}, {4, 16}, {16, 4}} {
			for rep := 0; rep < 2; rep++ {
				var mu sync.Mutex
				var wg sync.WaitGroup
				sem := make(chan struct{}, cfg.workers)
				for _, i := range idx {
					wg.Add(1)
					sem <- struct{}{}
					go func(i int) {
						defer wg.Done()
						defer func() { <-sem }()
						sc := p.Gen(opt.Seed, i, "quick")
						run := env.execWith([]*scen.Scenario{sc}, 60*time.Second, []string{fmt.Sprintf("GOMAXPROCS=%d", cfg.procs)})[0]
						h := hashRun(run)
						mu.Lock()
						defer mu.Unlock()
						total++
						if old, ok := ref[i]; !ok {
							ref[i] = h
						} else if old != h {
							bad++
							if bad <= 5 {
								logf("DIVERGENCE property=%s episode=%d workers=%d GOMAXPROCS=%d: %s vs %s", id, i, cfg.workers, cfg.procs, old, h)
							}
						}
					}(i)
				}
				wg.Wait()
			}
		}
		logf("selftest %s: %d episodes x 12 runs compared", id, len(idx))
	}
	logf("selftest: %d world runs, %d divergences, %.1fs", total, bad, time.Since(t0).Seconds())
	if bad > 0 {
		return 2
	}
	return 0
}
