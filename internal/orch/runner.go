// Package orch is the orchestrator: it builds the worlds from /repo's working
// tree, spawns one world process per episode (or per batch), collects event
// logs, runs the oracles, minimises and replays violations and writes evidence.
package orch

import (
	"bufio"
	"bytes"
	"context"
	"encoding/json"
	"fmt"
	"os"
	"os/exec"
	"path/filepath"
	"strings"
	"sync"
	"time"

	"verif/internal/instrument"
	"verif/internal/scen"
)

// Run is everything observed about one episode.
type Run struct {
	Events   []scen.Event
	Result   *scen.Result
	Stdout   []byte
	Stderr   []byte
	ExitCode int
	TimedOut bool
	Files    map[string][]byte // fd-backed destinations, read after the process is gone
	WallNs   int64
}

// Violation is one oracle verdict.
type Violation struct {
	Rule    string `json:"rule"`
	Witness string `json:"witness"` // stable, specific: used to match known findings and replays
	Detail  string `json:"detail"`
}

func (v Violation) Key() string { return v.Rule + "|" + v.Witness }

// Env describes the built worlds and scratch layout.
type Env struct {
	Scratch   string
	World     string // plain world binary
	RaceWorld string // -race world binary ("" when not built)
	FineWorld string // world built with rule R4 ("" when not built)
	TestWorld string // the same world as a real go-test binary (testing-mode episodes)
	FS        string // root of the simulated file system (homes, cwds)
	Seams     *instrument.Report
	VerifDir  string
	RepoDir   string
	BuildS    float64
}

func goEnv() []string {
	env := os.Environ()
	set := func(k, v string) {
		for i, e := range env {
			if strings.HasPrefix(e, k+"=") {
				env[i] = k + "=" + v
				return
			}
		}
		env = append(env, k+"="+v)
	}
	set("GOFLAGS", "-mod=mod")
	set("GOPROXY", "off")
	set("GOSUMDB", "off")
	set("GOTOOLCHAIN", "local")
	set("GOWORK", "off")
	return env
}

func goModCache() string {
	out, err := exec.Command("go", "env", "GOMODCACHE").Output()
	if err != nil {
		return ""
	}
	return strings.TrimSpace(string(out))
}

// BuildWorlds instruments /repo's current tree and builds the world binaries.
// Any failure here is "build trouble" (exit 2), never a violation.
func BuildWorlds(verifDir, repoDir string, race, fine bool, mutate func(ovDir string, rep *instrument.Report) error) (*Env, error) {
	return buildWorlds(verifDir, repoDir, race, fine, mutate)
}

func buildWorlds(verifDir, repoDir string, race, fine bool, mutate func(ovDir string, rep *instrument.Report) error) (*Env, error) {
	t0 := time.Now()
	base := os.Getenv("VERIF_SCRATCH")
	if base == "" {
		base = "/dev/shm"
	}
	if st, err := os.Stat(base); err != nil || !st.IsDir() {
		base = os.TempDir()
	}
	scratch, err := os.MkdirTemp(base, "verif-")
	if err != nil {
		return nil, err
	}
	env := &Env{Scratch: scratch, VerifDir: verifDir, RepoDir: repoDir, FS: filepath.Join(scratch, "fs")}
	rep, err := instrument.Build(instrument.Options{RepoDir: repoDir, OutDir: filepath.Join(scratch, "ov"), ModCache: goModCache()})
	if err != nil {
		return env, fmt.Errorf("instrument: %w", err)
	}
	env.Seams = rep
	var fineRep *instrument.Report
	if fine {
		fineRep, err = instrument.Build(instrument.Options{RepoDir: repoDir, OutDir: filepath.Join(scratch, "ovfine"), ModCache: goModCache(), FineYields: true})
		if err != nil {
			return env, fmt.Errorf("instrument (fine): %w", err)
		}
		rep.Seams["R4"] = fineRep.Seams["R4"]
	}
	if mutate != nil {
		if err := mutate(filepath.Join(scratch, "ov"), rep); err != nil {
			return env, err
		}
	}
	// a private go.mod whose replace directive points at the tree under test (VERIF_REPO may be a snapshot)
	modfile := filepath.Join(scratch, "go.mod")
	if b, err := os.ReadFile(filepath.Join(verifDir, "go.mod")); err == nil {
		txt := strings.Replace(string(b), "replace github.com/hedzr/logg => /repo", "replace github.com/hedzr/logg => "+repoDir, 1)
		_ = os.WriteFile(modfile, []byte(txt), 0o644)
		if s, err := os.ReadFile(filepath.Join(verifDir, "go.sum")); err == nil {
			_ = os.WriteFile(filepath.Join(scratch, "go.sum"), s, 0o644)
		}
	} else {
		return env, fmt.Errorf("go.mod: %w", err)
	}
	buildTest := func(out string) error {
		args := []string{"test", "-c", "-modfile", modfile, "-tags", "verif", "-overlay", rep.OverlayFile, "-vet=off", "-o", out, "./cmd/simworld"}
		cmd := exec.Command("go", args...)
		cmd.Dir = verifDir
		cmd.Env = goEnv()
		var eb bytes.Buffer
		cmd.Stderr = &eb
		cmd.Stdout = &eb
		if err := cmd.Run(); err != nil {
			return fmt.Errorf("go %s: %v\n%s", strings.Join(args, " "), err, eb.String())
		}
		return nil
	}
	build := func(out string, extra ...string) error {
		ov := rep.OverlayFile
		if len(extra) > 0 && extra[0] == "FINE" {
			ov = fineRep.OverlayFile
			extra = extra[1:]
		}
		args := []string{"build", "-modfile", modfile, "-tags", "verif", "-overlay", ov}
		args = append(args, extra...)
		args = append(args, "-o", out, "./cmd/simworld")
		cmd := exec.Command("go", args...)
		cmd.Dir = verifDir
		cmd.Env = goEnv()
		var eb bytes.Buffer
		cmd.Stderr = &eb
		cmd.Stdout = &eb
		if err := cmd.Run(); err != nil {
			return fmt.Errorf("go %s: %v\n%s", strings.Join(args, " "), err, eb.String())
		}
		return nil
	}
	env.World = filepath.Join(scratch, "simworld")
	var wg sync.WaitGroup
	var e1, e2, e3, e4 error
	wg.Add(1)
	go func() { defer wg.Done(); e1 = build(env.World) }()
	env.TestWorld = filepath.Join(scratch, "simworld.test")
	wg.Add(1)
	go func() { defer wg.Done(); e4 = buildTest(env.TestWorld) }()
	if fine {
		env.FineWorld = filepath.Join(scratch, "simworld.fine")
		wg.Add(1)
		go func() { defer wg.Done(); e3 = build(env.FineWorld, "FINE") }()
	}
	if race {
		env.RaceWorld = filepath.Join(scratch, "simworld.race")
		wg.Add(1)
		go func() { defer wg.Done(); e2 = build(env.RaceWorld, "-race") }()
	}
	wg.Wait()
	if e1 != nil {
		return env, e1
	}
	if e2 != nil {
		return env, e2
	}
	if e3 != nil {
		return env, e3
	}
	if e4 != nil {
		return env, e4
	}
	for _, d := range []string{"home/sim", "cwd"} {
		_ = os.MkdirAll(filepath.Join(env.FS, d), 0o755)
	}
	env.BuildS = time.Since(t0).Seconds()
	return env, nil
}

func (e *Env) Cleanup() {
	if e != nil && e.Scratch != "" {
		_ = os.RemoveAll(e.Scratch)
	}
}

// fsPath maps a simulated absolute path into the scratch file system.
func (e *Env) fsPath(p string) string {
	if p == "" {
		return ""
	}
	return filepath.Join(e.FS, filepath.Clean("/"+p))
}

// Exec runs a batch of scenarios in one world process and returns one Run per
// scenario. With a single scenario the process-level observations (exit
// status, stdout, stderr) belong to it.
func (e *Env) Exec(scs []*scen.Scenario, timeout time.Duration) []*Run {
	return e.execWith(scs, timeout, nil)
}

func (e *Env) execWith(scs []*scen.Scenario, timeout time.Duration, extraEnv []string) []*Run {
	runs := make([]*Run, len(scs))
	for i := range runs {
		runs[i] = &Run{ExitCode: -1}
	}
	if len(scs) == 0 {
		return runs
	}
	first := scs[0]
	bin := e.World
	if first.World.Race && e.RaceWorld != "" {
		bin = e.RaceWorld
	} else if first.World.Fine && e.FineWorld != "" {
		bin = e.FineWorld
	}
	argv0 := "simworld"
	var extra []string
	if first.World.Mode == "testing" {
		// a real go-test binary of the world; -test.run matches nothing and TestMain never starts the framework
		argv0 = "simworld.test"
		extra = append(extra, "-test.run=^$")
		if !first.World.Race && !(first.World.Fine && e.FineWorld != "") && e.TestWorld != "" {
			bin = e.TestWorld
		}
	}
	extra = append(extra, first.World.Args...)
	home := e.fsPath("/home/sim")
	if first.World.Home != "" {
		home = e.fsPath(first.World.Home)
	}
	cwd := e.fsPath("/cwd")
	if first.World.Cwd != "" {
		cwd = e.fsPath(first.World.Cwd)
	}
	if first.World.RawPaths {
		if first.World.Home != "" {
			home = first.World.Home
		}
		if first.World.Cwd != "" {
			cwd = first.World.Cwd
		}
	} else {
		_ = os.MkdirAll(home, 0o755)
		_ = os.MkdirAll(cwd, 0o755)
	}
	var fileDir string
	fileDirs := make([]string, len(scs)) // per episode (a batch may hold several episodes with files of their own)
	for k, sc := range scs {
		if sc.World.FileDir == "auto" {
			// a private directory for the fd-backed destinations of this episode
			d, err := os.MkdirTemp(e.Scratch, "files-")
			if err == nil {
				c := *sc
				c.World.FileDir = d
				scs = append(append([]*scen.Scenario{}, scs[:k]...), append([]*scen.Scenario{&c}, scs[k+1:]...)...)
				fileDir = d
				fileDirs[k] = d
				defer os.RemoveAll(d)
			}
		} else if sc.World.FileDir != "" {
			fileDir = sc.World.FileDir
			fileDirs[k] = sc.World.FileDir
		}
	}

	var in bytes.Buffer
	for _, sc := range scs {
		b, _ := json.Marshal(sc)
		in.Write(b)
		in.WriteByte('\n')
	}
	ctx, cancel := context.WithTimeout(context.Background(), timeout)
	defer cancel()
	cmd := exec.CommandContext(ctx, bin)
	cmd.Args = append([]string{argv0}, extra...)
	cmd.Dir = cwd
	cmd.Env = []string{"HOME=" + home, "PATH=/usr/bin:/bin", "TZ=UTC", "GOTRACEBACK=single"}
	if first.World.Race {
		cmd.Env = append(cmd.Env, "GORACE=halt_on_error=0 history_size=5", "GOMAXPROCS=1")
	}
	cmd.Env = append(cmd.Env, extraEnv...)
	cmd.Stdin = &in
	var so, se bytes.Buffer
	cmd.Stdout = &so
	cmd.Stderr = &se
	pr, pw, err := os.Pipe()
	if err != nil {
		runs[0].Result = &scen.Result{Err: "pipe: " + err.Error()}
		return runs
	}
	cmd.ExtraFiles = []*os.File{pw}
	t0 := time.Now()
	if err := cmd.Start(); err != nil {
		pr.Close()
		pw.Close()
		runs[0].Result = &scen.Result{Err: "start: " + err.Error()}
		return runs
	}
	pw.Close()
	idx := 0
	rd := bufio.NewReaderSize(pr, 1<<20)
	for {
		line, err := rd.ReadBytes('\n')
		if len(line) > 1 {
			var ln scen.Line
			if jerr := json.Unmarshal(line, &ln); jerr == nil && idx < len(runs) {
				if ln.E != nil {
					runs[idx].Events = append(runs[idx].Events, *ln.E)
				}
				if ln.R != nil {
					runs[idx].Result = ln.R
					idx++
				}
			}
		}
		if err != nil {
			break
		}
	}
	pr.Close()
	werr := cmd.Wait()
	wall := time.Since(t0).Nanoseconds()
	code := 0
	if werr != nil {
		if ee, ok := werr.(*exec.ExitError); ok {
			code = ee.ExitCode()
		} else {
			code = -1
		}
	}
	timedOut := ctx.Err() == context.DeadlineExceeded
	// process-level observations go to the episode that was running when the
	// process ended (the last one that produced events), and to all when single.
	last := idx
	if last >= len(runs) {
		last = len(runs) - 1
	}
	for i, r := range runs {
		r.WallNs = wall / int64(len(runs))
		if len(runs) == 1 || i == last {
			r.Stdout, r.Stderr, r.ExitCode, r.TimedOut = so.Bytes(), se.Bytes(), code, timedOut
		} else if i < last {
			r.ExitCode = 0
		} else if timedOut {
			// never started: the process was stopped for its wall-clock budget in an earlier episode of the batch
			r.ExitCode, r.TimedOut = code, true
		}
	}
	// a race world marks the start of every episode on stderr: give each run its own part
	if first.World.Race && len(runs) > 1 {
		parts := bytes.Split(se.Bytes(), []byte("@@EPISODE "))
		for i, r := range runs {
			if i+1 < len(parts) {
				r.Stderr = parts[i+1]
			} else {
				r.Stderr = nil
			}
		}
	}
	if fileDir != "" {
		read := func(dir string) map[string][]byte {
			ents, _ := os.ReadDir(dir)
			files := map[string][]byte{}
			for _, en := range ents {
				if b, err := os.ReadFile(filepath.Join(dir, en.Name())); err == nil {
					files[en.Name()] = b
				}
			}
			return files
		}
		for i, r := range runs {
			if fileDirs[i] != "" {
				r.Files = read(fileDirs[i])
			}
		}
	}
	return runs
}

// Exec1 runs one scenario in a fresh process.
func (e *Env) Exec1(sc *scen.Scenario) *Run {
	return e.Exec([]*scen.Scenario{sc}, 30*time.Second)[0]
}
